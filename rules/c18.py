"""C18 - the command line writes what the API generates and honours its options (option flow, write-after-generate, config keys)."""

from __future__ import annotations

import ast
import re

from sa import fl
from sa.core import Ctx
from sa.sm import Func, call_kw, const_str, dotted, find_calls, norm, walk_no_nested

from . import common

EXEMPT = {"version": "eager callback, prints and exits", "license": "eager callback, prints and exits"}
# callee parameter <- differently named command option
MAP = {"suffix": {"to"}, "backend": {"backend", "jax"}, "path": {"config"}}


def commands(ctx: Ctx) -> list[Func]:
    out = []
    for f in ctx.sm.funcs_in("cli/__init__.py"):
        if "." in f.qualname:
            continue
        if any(d.replace(" ", "").startswith("app.command(") for d in f.decorators()):
            out.append(f)
    ctx.require(out, "no @app.command() functions found in cli/__init__.py")
    return out


def resolve_dispatch(ctx: Ctx, f: Func, call: ast.Call) -> Func | None:
    sm = ctx.sm
    d = dotted(call.func) or ""
    if d.endswith(".main") and d.split(".")[0] in ("gotran2c", "gotran2py", "cellml2ode"):
        return sm.func(f"cli/{d.split('.')[0]}.py", "main", required=False)
    if isinstance(call.func, ast.Name):
        # from .cellml2ode import main as _main
        for n in ast.walk(f.node):
            if isinstance(n, ast.ImportFrom) and n.level == 1:
                for a in n.names:
                    if (a.asname or a.name) == call.func.id:
                        return sm.func(f"cli/{n.module}.py", a.name, required=False)
        imps = sm.module_imports(f.rel)
        if call.func.id in imps:
            modname, _, name = imps[call.func.id].rpartition(".")
            rel = sm.resolve_module_rel(modname)
            if rel:
                return sm.funcs.get((rel, name))
    return None


def check_call_forwarding(ctx: Ctx, rule: str, caller: Func, call: ast.Call, callee: Func, skip: set = frozenset()):
    """Every parameter of ``callee`` that corresponds to a parameter of ``caller`` receives a value derived from it."""
    deps = fl.param_deps(caller)
    cparams = callee.params
    passed: dict[str, ast.AST] = {}
    for i, a in enumerate(call.args):
        if i < len(cparams):
            passed[cparams[i]] = a
    for k in call.keywords:
        if k.arg:
            passed[k.arg] = k.value
    for q in cparams:
        if q in skip:
            continue
        cands = ({q} | MAP.get(q, set())) & set(caller.params)
        if not cands:
            continue
        key = caller.key(f"{callee.rel.split('/')[-1][:-3]}.{callee.name}::{q}")
        if q not in passed:
            ctx.fail(rule, key, f"{caller.qualname} accepts `{'/'.join(sorted(cands))}` but does not pass `{q}` to {callee.rel.split('/')[-1]}::{callee.name}: the option is silently ignored", caller.where(call))
            continue
        got = fl.expr_params(passed[q], deps)
        ctx.check(
            bool(got & cands),
            rule,
            key,
            f"{q} <- {norm(passed[q])}",
            f"{caller.qualname} passes {q}={norm(passed[q])} to {callee.name}, which does not derive from its own option `{'/'.join(sorted(cands))}`",
            caller.where(call),
        )


def run(ctx: Ctx):
    sm = ctx.sm
    ctx.assume("exit codes as observed from a shell are not decided; typer's own argument validation (exists=True) is trusted")
    cmds = commands(ctx)

    # ---- R18.a option forwarding ------------------------------------------------------------------
    ctx.rule("R18.a", "every option of a conversion command reaches the dispatched main; every parameter of a main reaches get_code, the output path or logging; every get_code parameter is used", floor=40)
    dispatching = []
    for f in cmds:
        calls = []
        for c in walk_no_nested(f.node):
            if isinstance(c, ast.Call):
                m = resolve_dispatch(ctx, f, c)
                if m is not None and m.name == "main":
                    calls.append((c, m))
        if not calls:
            continue
        dispatching.append(f)
        deps = fl.param_deps(f)
        reached: set[str] = set()
        for c, m in calls:
            check_call_forwarding(ctx, "R18.a", f, c, m)
            for a in list(c.args) + [k.value for k in c.keywords]:
                reached |= fl.expr_params(a, deps)
        for c in find_calls(f.node, "read_config"):
            for a in list(c.args) + [k.value for k in c.keywords]:
                reached |= fl.expr_params(a, deps)
        conds = fl.condition_params(f)
        for p in f.params:
            if p in EXEMPT:
                continue
            ctx.check(
                p in reached,
                "R18.a",
                f.key(f"option::{p}"),
                f"option `{p}` reaches the dispatched main",
                f"command `{f.name}`: option `{p}` is accepted but never reaches a dispatched main" + (" (it is only tested in a condition)" if p in conds else " (it is never read)"),
                f.where(),
            )
    ctx.require(len(dispatching) >= 4, f"expected 4 dispatching commands (convert, ode2py, ode2c, cellml2ode), found {[f.name for f in dispatching]}")

    for short in ("cli/gotran2py.py", "cli/gotran2c.py"):
        main = sm.func(short, "main")
        gc = sm.func(short, "get_code")
        calls = [c for c in find_calls(main.node, "get_code")]
        ctx.require(calls, f"{short}::main no longer calls get_code")
        check_call_forwarding(ctx, "R18.a", main, calls[0], gc, skip={"ode"})
        deps = fl.param_deps(main)
        used: set[str] = set()
        for u in fl.keyword_uses(main):
            used |= u.params
        for n in walk_no_nested(main.node):
            if isinstance(n, ast.Call) and isinstance(n.func, ast.Attribute):
                used |= fl.expr_params(n.func.value, deps)
        used |= fl.condition_params(main)
        for p in main.params:
            ctx.check(p in used, "R18.a", main.key(f"param::{p}"), f"`{p}` is used", f"{short}::main: parameter `{p}` is never used", main.where())
        # get_code: every parameter is consumed
        gdeps = fl.param_deps(gc)
        gused: set[str] = set()
        for u in fl.keyword_uses(gc):
            gused |= u.params
        gused |= fl.condition_params(gc)
        for p in gc.params:
            ctx.check(p in gused, "R18.a", gc.key(f"param::{p}"), f"`{p}` is consumed", f"{short}::get_code: parameter `{p}` is never consumed (generator, add_schemes, formatter)", gc.where())
        ctor = [c for c in walk_no_nested(gc.node) if isinstance(c, ast.Call) and (dotted(c.func) or "") in ("CodeGenerator", "CCodeGenerator", "PythonCodeGenerator", "JaxCodeGenerator")]
        ctx.require(ctor, f"{short}::get_code: generator construction not found")
        ru = call_kw(ctor[0], "remove_unused")
        ctx.check(ru is not None and "remove_unused" in fl.expr_params(ru, gdeps), "R18.a", gc.key("ctor::remove_unused"), "remove_unused reaches the generator", f"{short}::get_code does not pass remove_unused to the code generator", gc.where(ctor[0]))
        adds = [c for c in find_calls(gc.node, "add_schemes")]
        ctx.require(adds, f"{short}::get_code: add_schemes call not found")
        add_f = sm.func("cli/utils.py", "add_schemes")
        check_call_forwarding(ctx, "R18.a", gc, adds[0], add_f, skip={"codegen"})
        # formatter honoured
        gf = [c for c in find_calls(gc.node, "get_formatter")]
        okf = bool(gf) and "format" in fl.expr_params(call_kw(gf[0], "format") or (gf[0].args[0] if gf[0].args else ast.Constant(None)), gdeps)
        applied = [c for c in walk_no_nested(gc.node) if isinstance(c, ast.Call) and isinstance(c.func, ast.Name) and c.func.id in gdeps and "format" in gdeps.get(c.func.id, set())]
        ctx.check(okf and bool(applied), "R18.a", gc.key("formatter"), "the requested formatter is looked up and applied to the result", f"{short}::get_code does not apply the formatter selected by `format` to the generated code", gc.where())
        if short.endswith("gotran2py.py"):
            from sa import te

            members = common.enum_values(ctx, "cli/gotran2py.py", "Backend")
            pe = te.PEval(sm.module("cli/gotran2py.py"), distinct={f"Backend.{m}" for m in members})
            want = {"numpy": "PythonCodeGenerator", "jax": "JaxCodeGenerator"}
            callee = ctor[0].func.id if isinstance(ctor[0].func, ast.Name) else None
            for m in members:
                env = pe.env_before(gc.node, {"backend": te.atom(f"Backend.{m}")}, ctor[0])
                got = None
                if isinstance(env, dict) and callee is not None:
                    got = env.get(callee, te.atom(callee))
                    got = got[1] if got[0] == "atom" else got
                ctx.check(m in want and got == want[m], "R18.a", gc.key(f"backend::{m}"), f"backend {m} -> {want.get(m)}", f"gotran2py.get_code: backend `{m}` constructs `{got}` (expected {want.get(m)})" if env is not None else f"gotran2py.get_code: the selection of the generator class for backend `{m}` is not understood", gc.where())
            env = pe.env_before(gc.node, {"backend": ("const", "<something else>")}, ctor[0])
            ctx.check(isinstance(env, tuple) and env[0] == "raise", "R18.a", gc.key("backend::<other>"), "an unknown backend is rejected", "gotran2py.get_code: an unknown backend does not raise", gc.where())
            sh = call_kw(ctor[0], "shape")
            ctx.check(sh is not None and "shape" in fl.expr_params(sh, gdeps), "R18.a", gc.key("ctor::shape"), "shape reaches the generator", "gotran2py.get_code does not pass shape to the generator", gc.where())

    # the per-scheme keyword arguments: delta and stiff_states are honoured for every scheme that takes them
    common.check_scheme_kwargs(ctx, "R18.a", "delta")
    common.check_scheme_kwargs(ctx, "R18.a", "stiff_states")

    # ---- R18.b write after generate ------------------------------------------------------------------
    ctx.rule("R18.b", "in each main the output file is touched only after load_ode and get_code have returned, with get_code's text unmodified, and no handler swallows their exceptions", floor=8)
    WRITE_ATTRS = ("write_text", "write_bytes", "open", "touch", "write", "writelines", "mkdir", "unlink")
    for short in ("cli/gotran2py.py", "cli/gotran2c.py", "cli/cellml2ode.py"):
        main = sm.func(short, "main")
        order = fl.eval_order(main.node)
        gen_name = "get_code" if not short.endswith("cellml2ode.py") else "cellml_to_gotran"
        gen = [i for i, c in enumerate(order) if (dotted(c.func) or "").split(".")[-1] == gen_name]
        load = [i for i, c in enumerate(order) if (dotted(c.func) or "").split(".")[-1] in ("load_ode", "cellml_to_gotran")]
        writes = [i for i, c in enumerate(order) if (isinstance(c.func, ast.Attribute) and c.func.attr in WRITE_ATTRS + ("save",) and not (dotted(c.func) or "").startswith("logger")) or (isinstance(c.func, ast.Name) and c.func.id == "open")]
        ctx.require(gen and load, f"{short}::main: load/generate calls not found")
        ctx.check(bool(writes), "R18.b", main.key("writes"), "main writes the result", f"{short}::main no longer writes an output file", main.where())
        if writes:
            first_w = order[writes[0]]
            ctx.check(
                min(writes) > max(gen) and min(load) < min(gen) + 1,
                "R18.b",
                main.key("order"),
                "load -> generate -> write",
                f"{short}::main touches the output file (`{norm(first_w)[:60]}`) before generation has finished: a model that fails to load or generate leaves an (empty / truncated) output file behind",
                main.where(first_w),
            )
        trys = [n for n in ast.walk(main.node) if isinstance(n, ast.Try)]
        ctx.check(not trys, "R18.b", main.key("no-handler"), "no exception handler around load/generate/write", f"{short}::main wraps its work in try/except: a failing model may no longer exit non-zero", main.where())
        if gen_name == "get_code":
            # the written text is exactly get_code's result
            assigns = [n for n in walk_no_nested(main.node) if isinstance(n, ast.Assign) and isinstance(n.value, ast.Call) and (dotted(n.value.func) or "") == "get_code"]
            wt = [c for c in order if isinstance(c.func, ast.Attribute) and c.func.attr == "write_text"]
            okw = bool(assigns) and bool(wt) and len(wt[0].args) == 1 and isinstance(wt[0].args[0], ast.Name) and wt[0].args[0].id == norm(assigns[0].targets[0])
            if okw:
                var = wt[0].args[0].id
                others = [n for n in walk_no_nested(main.node) if isinstance(n, (ast.Assign, ast.AugAssign)) and n is not assigns[0] and any(isinstance(x, ast.Name) and x.id == var for t in (n.targets if isinstance(n, ast.Assign) else [n.target]) for x in ast.walk(t))]
                okw = not others
            ctx.check(okw, "R18.b", main.key("text"), "write_text(code) with code = get_code(...) unmodified", f"{short}::main does not write exactly the text returned by get_code", main.where())
            # output path = (outname or fname).with_suffix(suffix)
            deps = fl.param_deps(main)
            recv = fl.expr_params(wt[0].func.value, deps) if wt else set()
            ctx.check({"fname", "outname", "suffix"} <= recv, "R18.b", main.key("path"), "output path derives from fname/outname/suffix", f"{short}::main: the output path depends on {sorted(recv)}, expected fname, outname and suffix", main.where())
    for f in dispatching:
        trys = [n for n in ast.walk(f.node) if isinstance(n, ast.Try)]
        ctx.check(not trys, "R18.b", f.key("no-handler"), "no exception handler in the command", f"command `{f.name}` catches exceptions around the conversion", f.where())

    # ---- R18.c configuration keys ----------------------------------------------------------------------
    ctx.rule("R18.c", "configuration: an explicit --config path is honoured; every documented key is read with the command-line value as default and assigned to the forwarded variable", floor=12)
    rc = sm.func("cli/utils.py", "read_config")
    p = rc.params[0]
    bad = []
    for n in walk_no_nested(rc.node):
        if isinstance(n, ast.Assign) and any(isinstance(t, ast.Name) and t.id == p for t in n.targets):
            chain = common.cond_chain(rc.node, n) or []
            if not any(c.replace(" ", "") == f"{p}isNone" and pol for c, pol in chain):
                bad.append(norm(n))
    ctx.check(not bad, "R18.c", rc.key("explicit-path-wins"), "the path argument is replaced only when it is None", f"read_config overwrites an explicitly given path ({bad}): --config is ignored when a pyproject.toml can be discovered", rc.where())
    rets = [norm(n.value) for n in ast.walk(rc.node) if isinstance(n, ast.Return) and n.value is not None]
    ctx.check(any(r.replace('"', "'") == "config.get('tool', {}).get('gotranx', {})" for r in rets), "R18.c", rc.key("table"), "returns [tool.gotranx]", f"read_config does not return config['tool']['gotranx'] (returns: {rets})", rc.where())
    reads = [c for c in find_calls(rc.node, "read_text")]
    okr = bool(reads) and p in {x.id for x in ast.walk(reads[0]) if isinstance(x, ast.Name)}
    ctx.check(okr, "R18.c", rc.key("reads-path"), "reads the file at `path`", "read_config does not read the file named by its path argument", rc.where())

    doc_keys = documented_keys(ctx)
    expected = {
        "ode2py": {"": ["verbose", "delta", "stiff_states", "scheme"], "python": ["format", "backend"]},
        "ode2c": {"": ["verbose", "delta", "stiff_states", "scheme"], "c": ["format", "to"]},
        "cellml2ode": {"": ["verbose"]},
    }
    for section, keys in doc_keys.items():
        for k in keys:
            holders = [c for c, secs in expected.items() if k in secs.get(section, [])]
            ctx.check(bool(holders), "R18.c", f"docs/config.md::{section or 'tool.gotranx'}::{k}", "documented key is handled by a command", f"docs/config.md documents `{k}` under [{'tool.gotranx' + ('.' + section if section else '')}] but no command is expected to read it (checker table out of date)", "docs/config.md")
    for f in dispatching:
        if f.name not in expected:
            continue
        tables = {"": None}
        for n in walk_no_nested(f.node):
            if isinstance(n, ast.Assign) and isinstance(n.value, ast.Call) and (dotted(n.value.func) or "").endswith("read_config"):
                tables[""] = norm(n.targets[0])
        ctx.require(tables[""], f"{f.name}: read_config call not found")
        for n in walk_no_nested(f.node):
            if isinstance(n, ast.Assign) and isinstance(n.value, ast.Call) and norm(n.value.func) == f"{tables['']}.get" and n.value.args and const_str(n.value.args[0]) in ("python", "c"):
                tables[const_str(n.value.args[0])] = norm(n.targets[0])
        for section, keys in expected[f.name].items():
            tbl = tables.get(section)
            for k in keys:
                key = f.key(f"config::{section + '.' if section else ''}{k}")
                if tbl is None:
                    ctx.fail("R18.c", key, f"command `{f.name}` does not read the [{section}] table of the configuration", f.where())
                    continue
                hit = None
                for n in walk_no_nested(f.node):
                    if isinstance(n, ast.Assign) and len(n.targets) == 1 and isinstance(n.targets[0], ast.Name):
                        for c in ast.walk(n.value):
                            if isinstance(c, ast.Call) and norm(c.func) == f"{tbl}.get" and c.args and const_str(c.args[0]) == k:
                                hit = (n, c)
                if hit is None:
                    ctx.fail("R18.c", key, f"command `{f.name}` never reads the documented configuration key `{k}`", f.where())
                    continue
                n, c = hit
                tgt = n.targets[0].id
                dflt = c.args[1] if len(c.args) > 1 else None
                okk = tgt == k and isinstance(dflt, ast.Name) and dflt.id == k
                ctx.check(okk, "R18.c", key, f"{k} = {tbl}.get('{k}', {k})", f"command `{f.name}`: `{norm(n)}` does not assign key `{k}` to variable `{k}` with the command-line value as default", f.where(n))


def documented_keys(ctx: Ctx) -> dict[str, list[str]]:
    p = ctx.repo / "docs" / "config.md"
    if not p.exists():
        ctx.notes.append("docs/config.md not found; documented-key cross-check skipped")
        return {}
    out: dict[str, list[str]] = {}
    section = None
    for ln in p.read_text().splitlines():
        m = re.match(r"^###\s+.*\(under `tool\.gotranx(?:\.(\w+))?`\)", ln)
        if m:
            section = m.group(1) or ""
            out.setdefault(section, [])
            continue
        if ln.startswith("## ") or ln.startswith("# "):
            section = None
        m = re.match(r"^- `(\w+)`", ln)
        if m and section is not None:
            out[section].append(m.group(1))
    return out
