"""C14 - generated NumPy functions are vectorised (array-safe emission and result shapes)."""

from __future__ import annotations

import ast

from sa import tm
from sa.core import Ctx
from sa.sm import call_kw, const_str, dotted, find_calls, fstring_skeleton, norm

from . import common, printers


def run(ctx: Ctx):
    sm = ctx.sm
    ctx.assume("column-wise numerical equality is NOT decided; what is decided is that no scalar-only or batch-reducing construct can be emitted for the producible classes")
    ctx.assume("inherited sympy print methods behave as recorded in the vetted table (sympy 1.14.0)")
    ctx.rule("R14.a", "for every producible sympy class the NumPy printer resolves to a method (gotranx's own, analysed; or a vetted inherited one) that emits only element-wise constructs", floor=40)
    printers.check_array_safe(ctx, "R14.a", "numpy")
    printers.check_not_normalised(ctx, "R14.a")

    ctx.rule("R14.c", "what reaches the printers is what the front end builds: conditionals and logical connectives are constructed as the language defines them (a rewrite of the condition in sympytools.Conditional / the builder can leave an unevaluated Not at the top of an assignment, which the printer writes as the scalar-only `not`)", floor=20)
    from .c01 import front_end

    front_end(ctx, {k_: "R14.c" for k_ in "abcde"}, declare=False)
    ctx.rule("R14.b", "result shapes: _shape_info covers the three Shape members with the batch axis states.shape[1]; monitor/missing values allocate numpy.zeros(shape); rhs and schemes allocate zeros_like(states)", floor=9)
    cgc = sm.cls("codegen/base.py", "CodeGenerator")
    f = cgc.methods["_shape_info"]
    members = common.enum_values(ctx, "codegen/base.py", "Shape")
    want = {
        "dynamic": "shape = {shape} if len(states.shape) == 1 else ({shape}, states.shape[1])",
        "single": "shape = {shape}",
        "multiple": "shape = ({shape}, states.shape[1])",
    }
    ctx.check(set(members) == set(want), "R14.b", f.key("members"), "Shape = dynamic | single | multiple", f"Shape members {sorted(members)} differ from {sorted(want)}", f.where())
    from sa import av as _av

    from . import util

    # what _shape_info returns for each member: its value specialised to self._shape == <member>
    v = util.value_of(ctx, f)
    p = f.params[1] if len(f.params) > 1 else "shape"
    for m, w in want.items():
        ww = w.replace("{shape}", "{" + p + "}")
        t = _av.renorm_deep(_av.subst(v, {("sym", "self._shape"): ("enum", "Shape", m, m)}))
        key = f.key(f"branch::{m}")
        if _av.has_unk(t) or t[0] == "if" or not _av._is_str(t):
            ctx.undecided("R14.b", key, f"what _shape_info returns for Shape.{m} does not reduce to one text ({_av.show(t)[:80]})", f.where())
            continue
        got = _av.flatten(t).replace(_av.HO, "{").replace(_av.HC, "}")
        ctx.check(got == ww, "R14.b", key, f"{m}: `{ww}`", f"_shape_info for Shape.{m} emits {got!r}, expected {ww!r} (the second axis of the result must be the batch axis states.shape[1])", f.where())
    for mname in ("monitor_values", "missing_values"):
        g = util.nff(ctx, cgc.methods[mname])
        tc = util.template_method_call(g)
        if tc is None:
            ctx.undecided("R14.b", g.key("allocation"), f"CodeGenerator.{mname}: the template.method(...) call is not found in the method's normal form; the allocation is not judged", g.where())
            continue
        vt = const_str(util.canon_of(g).resolve(call_kw(tc, "values_type"))) if call_kw(tc, "values_type") is not None else None
        si = call_kw(tc, "shape_info")
        src = util.ctext(g, si) if si is not None else None
        # after inlining, _shape_info's result is a local of the normal form; accept either the call or its expansion
        ok = vt == "numpy.zeros(shape)" and si is not None and (("_shape_info(" in (src or "")) or any(isinstance(n, ast.Compare) and "Shape." in norm(n) for n in ast.walk(g.node)))
        ctx.check(ok, "R14.b", g.key("allocation"), "values = numpy.zeros(shape) with shape from _shape_info", f"CodeGenerator.{mname}: result is allocated as {vt!r} with shape_info={src!r}; expected numpy.zeros(shape) / self._shape_info(...)", g.where(tc))
    for mname in ("rhs", "scheme"):
        g = util.nff(ctx, cgc.methods[mname])
        tc = util.template_method_call(g)
        if tc is None:
            ctx.undecided("R14.b", g.key("allocation"), f"CodeGenerator.{mname}: the template.method(...) call is not found in the method's normal form; the allocation is not judged", g.where())
            continue
        vt = call_kw(tc, "values_type")
        si = call_kw(tc, "shape_info")
        vtx = util.ctext(g, vt) if vt is not None else ""
        ok = vtx.endswith(").values_type") and ("_rhs_arguments(" in vtx or "_scheme_arguments(" in vtx) and si is not None and const_str(util.canon_of(g).resolve(si)) == ""
        ctx.check(ok, "R14.b", g.key("allocation"), "values = Func.values_type (zeros_like(states))", f"CodeGenerator.{mname}: values_type={vtx}, shape_info={util.ctext(g, si) if si is not None else None}", g.where(tc))
    for qn in ("PythonCodeGenerator._rhs_arguments", "PythonCodeGenerator._scheme_arguments"):
        from .c04 import func_fields

        g = sm.func("codegen/python.py", qn)
        fields, _v = func_fields(ctx, g)
        vtv = fields.get("values_type") if fields else None
        if vtv is None or vtv[0] != "c":
            ctx.undecided("R14.b", g.key("values_type"), f"{qn}: the result allocation expression is not understood", g.where())
            continue
        vt = vtv[1]
        ctx.check(vt == "numpy.zeros_like(states, dtype=numpy.float64)", "R14.b", g.key("values_type"), "numpy.zeros_like(states, dtype=numpy.float64)", f"{qn}: values_type is {vt!r}; the result must have the shape of `states` (one column per input column)", g.where())
    from sa import av as _av

    sk = util.skeleton(ctx, "R14.b", "templates/python.py", "method", {"nan_to_num": _av.C(False)})
    if sk is not None:
        raw = sk.raw
        i1, i2, i3 = raw.find("{shape_info}"), raw.find("{return_name} = {values_type}"), raw.find("{values}")
        ctx.check(0 <= i1 < i2 < i3, "R14.b", sk.func.key("order"), "shape_info, allocation, body", "python method template: shape_info / allocation / body are not emitted in this order", sk.func.where())
