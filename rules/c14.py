"""C14 - generated NumPy functions are vectorised (array-safe emission and result shapes)."""

from __future__ import annotations

import ast

from sa import tm
from sa.core import Ctx
from sa.sm import call_kw, const_str, dotted, find_calls, fstring_skeleton, norm

from . import common, printers


def run(ctx: Ctx):
    sm = ctx.sm
    ctx.assume("column-wise numerical equality is NOT decided; what is decided is that no scalar-only or batch-reducing construct can be emitted for the producible classes")
    ctx.assume("inherited sympy print methods behave as recorded in the vetted table (sympy 1.14.0)")
    ctx.rule("R14.a", "for every producible sympy class the NumPy printer resolves to a method (gotranx's own, analysed; or a vetted inherited one) that emits only element-wise constructs", floor=40)
    printers.check_array_safe(ctx, "R14.a", "numpy")
    printers.check_not_normalised(ctx, "R14.a")

    ctx.rule("R14.b", "result shapes: _shape_info covers the three Shape members with the batch axis states.shape[1]; monitor/missing values allocate numpy.zeros(shape); rhs and schemes allocate zeros_like(states)", floor=9)
    cgc = sm.cls("codegen/base.py", "CodeGenerator")
    f = cgc.methods["_shape_info"]
    members = common.enum_values(ctx, "codegen/base.py", "Shape")
    want = {
        "dynamic": "shape = {shape} if len(states.shape) == 1 else ({shape}, states.shape[1])",
        "single": "shape = {shape}",
        "multiple": "shape = ({shape}, states.shape[1])",
    }
    ctx.check(set(members) == set(want), "R14.b", f.key("members"), "Shape = dynamic | single | multiple", f"Shape members {sorted(members)} differ from {sorted(want)}", f.where())
    got = {}
    for n in ast.walk(f.node):
        if isinstance(n, ast.If):
            t = norm(n.test)
            for m in want:
                if t.replace(" ", "") in (f"self._shape==Shape.{m}", f"Shape.{m}==self._shape"):
                    rets = [s for s in n.body if isinstance(s, ast.Return)]
                    if rets:
                        got[m] = fstring_skeleton(rets[0].value)
    p = f.params[1] if len(f.params) > 1 else "shape"
    for m, w in want.items():
        ww = w.replace("{shape}", "{" + p + "}")
        ctx.check(got.get(m) == ww, "R14.b", f.key(f"branch::{m}"), f"{m}: `{ww}`", f"_shape_info for Shape.{m} emits {got.get(m)!r}, expected {ww!r} (the second axis of the result must be the batch axis states.shape[1])", f.where())
    for mname in ("monitor_values", "missing_values"):
        g = cgc.methods[mname]
        tc = [c for c in find_calls(g.node, "template.method")]
        ctx.require(tc, f"CodeGenerator.{mname}: template.method call not found")
        vt = const_str(call_kw(tc[0], "values_type"))
        si = call_kw(tc[0], "shape_info")
        ok = vt == "numpy.zeros(shape)" and si is not None and isinstance(si, ast.Name)
        src = None
        if ok:
            defs = [n for n in ast.walk(g.node) if isinstance(n, ast.Assign) and norm(n.targets[0]) == si.id]
            src = norm(defs[0].value) if defs else None
            ok = src is not None and src.startswith("self._shape_info(")
        ctx.check(ok, "R14.b", g.key("allocation"), "values = numpy.zeros(shape) with shape from _shape_info", f"CodeGenerator.{mname}: result is allocated as {vt!r} with shape_info={src!r}; expected numpy.zeros(shape) / self._shape_info(...)", g.where(tc[0]))
    for mname in ("rhs", "scheme"):
        g = cgc.methods[mname]
        tc = [c for c in find_calls(g.node, "template.method")]
        vt = call_kw(tc[0], "values_type")
        si = call_kw(tc[0], "shape_info")
        ok = vt is not None and norm(vt) == "rhs.values_type" and si is not None and const_str(si) == ""
        ctx.check(ok, "R14.b", g.key("allocation"), "values = Func.values_type (zeros_like(states))", f"CodeGenerator.{mname}: values_type={norm(vt) if vt is not None else None}, shape_info={norm(si) if si is not None else None}", g.where(tc[0]))
    for qn in ("PythonCodeGenerator._rhs_arguments", "PythonCodeGenerator._scheme_arguments"):
        g = sm.func("codegen/python.py", qn)
        fc = [c for c in find_calls(g.node, "Func")]
        vt = const_str(call_kw(fc[0], "values_type")) if fc else None
        ctx.check(vt == "numpy.zeros_like(states, dtype=numpy.float64)", "R14.b", g.key("values_type"), "numpy.zeros_like(states, dtype=numpy.float64)", f"{qn}: values_type is {vt!r}; the result must have the shape of `states` (one column per input column)", g.where())
    T = tm.TemplateModel(sm)
    sk = T.skeleton("templates/python.py", "method")
    raw = sk.raw
    i1, i2, i3 = raw.find("{shape_info}"), raw.find("{return_name} = {values_type}"), raw.find("{indent_values}")
    ctx.check(0 <= i1 < i2 < i3, "R14.b", sk.func.key("order"), "shape_info, allocation, body", "python method template: shape_info / allocation / body are not emitted in this order", sk.func.where())
