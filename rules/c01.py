"""C01 - the NumPy rhs computes the model's derivatives (structural necessary conditions of the front end and of rhs emission)."""

from __future__ import annotations

import ast
import importlib

from sa import pm, te, tm
from sa.core import Ctx
from sa.sm import call_kw, const_str, dotted, find_calls, fstring_skeleton, norm

from . import common, printers, util
from .c11 import grammar

LADDER = {
    "expression": "?expression: term (_add_op term)*",
    "term": "?term: factor (_mul_op factor)*",
    "factor": "?factor: (_unary_op factor | power)",
    "power": '?power: signedatom ("**" factor)?',
    "signedatom": "?signedatom: (SIGN signedatom | func | logicalfunc | atom)",
    "atom": '?atom: (scientific | variable | constant | "(" expression ")")',
    "_unary_op": '!_unary_op: ("+" | "-" | "~")',
    "_add_op": '!_add_op: ("+" | "-")',
    "_mul_op": '!_mul_op: ("*" | "/")',
    "scientific": "scientific: SCIENTIFIC_NUMBER",
    "constant": "constant: PI",
    "variable": "variable: VARIABLE",
    "func": '?func: funcname "(" expression ("," expression)* (",")* ")"',
    "logicalfunc": '?logicalfunc: logicalfuncname "(" expression ("," expression)* (",")? ")"',
}

# grammar function name -> (sympy attribute that build_expression looks up, the sympy object it must be)
FUNC_MEANING = {
    "cos": ("cos", "cos"), "tan": ("tan", "tan"), "sin": ("sin", "sin"), "acos": ("acos", "acos"), "atan": ("atan", "atan"), "asin": ("asin", "asin"),
    "log": ("log", "log"), "ln": ("ln", "log"), "sqrt": ("sqrt", "sqrt"), "exp": ("exp", "exp"), "Abs": ("Abs", "Abs"), "abs": ("Abs", "Abs"),
    "floor": ("floor", "floor"), "Mod": ("Mod", "Mod"),
}
LOGICAL_MEANING = {"Lt": "StrictLessThan", "Gt": "StrictGreaterThan", "Le": "LessThan", "Ge": "GreaterThan", "And": "And", "Or": "Or", "Eq": "Equality", "Not": "Not"}

BIN_REF = {"+": "fst + snd", "-": "fst + (-1) * snd", "*": "fst * snd", "/": "fst * snd ** (-1)", "**": "fst ** snd"}
UN_REF = {"-": "(-1) * arg", "+": "arg"}


def op_table(ctx: Ctx, rule: str, fname: str, ref: dict, operators: list[str]):
    """For each operator literal: specialise the function for that literal (partial evaluation over constants) and
    compare the term it returns with the language definition."""
    f = ctx.sm.func("expressions.py", fname)
    mod = ctx.sm.module("expressions.py")
    pe = te.PEval(mod, identity={"relational_to_piecewise", "sympify"})
    params = f.params
    for op in operators + ["<other>"]:
        args = {params[0]: ("const", op)}
        for p_ in params[1:]:
            args[p_] = te.atom(p_)
        kind, val = pe.outcome(f.node, args)
        key = f.key(f"operator::{op}")
        if op in ref:
            env = {p_: te.atom(p_) for p_ in params[1:]}
            want = te.parse_term(ref[op].replace("fst", params[1]).replace("snd", params[2] if len(params) > 2 else "snd").replace("arg", params[1]) if fname == "unary_op" else ref[op].replace("fst", params[1]).replace("snd", params[2]), env=env)
            ok = kind == "return" and val == want
            ctx.check(
                ok,
                rule,
                key,
                f"`{op}` -> {te.show(want)}",
                f"{fname}: operator `{op}` " + (f"builds {te.show(val)}" if kind == "return" and isinstance(val, tuple) and val[0] not in ('callable', 'dict', 'const') else f"gives {kind} {val if kind != 'unknown' else '(shape not understood)'}") + f"; the language defines it as {te.show(want)}",
                f.where(),
                trace=[f"found   : {te.show(val) if kind == 'return' and isinstance(val, tuple) and val[0] not in ('callable', 'dict', 'const') else (kind, val)}", f"expected: {te.show(want)}"],
            )
        else:
            ctx.check(kind == "raise", rule, key, f"`{op}` is rejected explicitly", f"{fname}: the grammar can produce operator `{op}` (or anything else); it must be rejected with an exception, found {kind} {te.show(val) if kind == 'return' and isinstance(val, tuple) and val and val[0] not in ('const',) else val}", f.where())


def run(ctx: Ctx):
    sm = ctx.sm
    G = grammar(ctx)
    M = printers.model(ctx)
    ctx.assume("numerical equality to rounding over all programs x inputs is NOT decided; sympy's own inherited printers are trusted as recorded in the vetted table")

    # ---- R01.a operator table ------------------------------------------------------------------
    ctx.rule("R01.a", "operator table: for each operator literal the grammar can produce, binary_op / unary_op return the term the language defines (a-b = a+(-1)b, a/b = a*b**-1, unary minus = (-1)a) or raise", floor=9)
    add_ops, mul_ops, un_ops = G.rule_literals("_add_op"), G.rule_literals("_mul_op"), G.rule_literals("_unary_op")
    pow_ops = [l for l in G.rule_literals("power")]
    op_table(ctx, "R01.a", "binary_op", BIN_REF, add_ops + mul_ops + pow_ops)
    op_table(ctx, "R01.a", "unary_op", UN_REF, un_ops)
    r2p = sm.func("expressions.py", "relational_to_piecewise")
    rets = [n for n in ast.walk(r2p.node) if isinstance(n, ast.Return)]
    ev = te.TermEval()
    rets = sorted(rets, key=lambda r: r.lineno)
    okr = len(rets) == 2 and ev.ev(rets[0].value) == ("pw", ((te.num(1), te.atom("expr")), (te.num(0), te.atom("True")))) and norm(rets[1].value) == r2p.params[0]
    conds = [norm(n.test) for n in ast.walk(r2p.node) if isinstance(n, ast.If)]
    ctx.check(okr and conds == ["expr.is_Relational"], "R01.a", r2p.key("indicator"), "a relational used as a number is Piecewise((1, rel), (0, True))", f"relational_to_piecewise no longer maps a relational operand to Piecewise((1, rel), (0, True)) (returns {[norm(r.value) for r in rets]}, tests {conds})", r2p.where())

    # ---- R01.b fold direction ----------------------------------------------------------------------
    ctx.rule("R01.b", "tree folding: expression/term fold left-to-right with the accumulator as first operand; factor applies the sign to its operand; power is base ** exponent", floor=4)
    e2 = sm.func("expressions.py", "build_expression.expr2symbols")
    branches = {}
    for n in e2.node.body:
        if isinstance(n, ast.If):
            branches[norm(n.test)] = n
    fold = [b for t, b in branches.items() if "'expression'" in t.replace('"', "'") and "'term'" in t.replace('"', "'")]
    okf = False
    if fold:
        b = fold[0]
        init = [s for s in b.body if isinstance(s, ast.Assign)]
        loops = [s for s in b.body if isinstance(s, ast.For)]
        if init and loops:
            acc = norm(init[0].targets[0])
            l = loops[0]
            i = l.target.id if isinstance(l.target, ast.Name) else "?"
            upd = [s for s in l.body if isinstance(s, ast.Assign) and norm(s.targets[0]) == acc]
            okf = (
                norm(init[0].value) == "expr2symbols(tree.children[0])"
                and norm(l.iter) == "range(1, len(tree.children), 2)"
                and bool(upd)
                and isinstance(upd[0].value, ast.Call)
                and (dotted(upd[0].value.func) or "") == "binary_op"
                and [norm(a) for a in upd[0].value.args] == [f"tree.children[{i}]", acc, f"expr2symbols(tree.children[{i} + 1])"]
                and any(isinstance(s, ast.Return) and norm(s.value) == acc for s in b.body)
            )
    ctx.check(okf, "R01.b", e2.key("fold"), "acc = binary_op(op_i, acc, operand_{i+1}) for i = 1, 3, 5, ...", "expr2symbols: expression/term children are not folded left-to-right as binary_op(children[i], accumulator, children[i+1]) (associativity or operand order of - and / would change)", e2.where(fold[0]) if fold else e2.where())
    fac = [b for t, b in branches.items() if t.replace('"', "'") == "tree.data == 'factor'"]
    okfa = bool(fac) and any(isinstance(s, ast.Return) and norm(s.value) == "unary_op(tree.children[0], expr2symbols(tree.children[1]))" for s in fac[0].body)
    ctx.check(okfa, "R01.b", e2.key("factor"), "unary_op(sign, operand)", "expr2symbols: factor is not unary_op(children[0], expr2symbols(children[1]))", e2.where())
    pw = [b for t, b in branches.items() if t.replace('"', "'") == "tree.data == 'power'"]
    okp = bool(pw) and any(isinstance(s, ast.Return) and norm(s.value).replace('"', "'") == "binary_op('**', expr2symbols(tree.children[0]), expr2symbols(tree.children[1]))" for s in pw[0].body)
    ctx.check(okp, "R01.b", e2.key("power"), "binary_op('**', base, exponent)", "expr2symbols: power is not binary_op('**', children[0], children[1]) (base and exponent swapped?)", e2.where())
    last = e2.node.body[-1]
    ctx.check(isinstance(last, ast.Raise) and "InvalidTreeError" in norm(last), "R01.b", e2.key("unknown-tree"), "unknown tree kinds raise InvalidTreeError", "expr2symbols does not end by raising InvalidTreeError for unknown tree kinds", e2.where())

    # ---- R01.c precedence ladder -------------------------------------------------------------------
    ctx.rule("R01.c", "precedence ladder of ode.lark: additive below multiplicative below unary below **, ** binds its signed right operand (right associative), parentheses restart at expression; leaf rules are not inlined", floor=14)
    for name, want in LADDER.items():
        got = G.shape(name)
        ctx.check(got == want, "R01.c", f"src/gotranx/ode.lark::{name}", got, f"grammar rule `{name}` is `{got}`; the vetted precedence ladder has `{want}` (precedence / associativity / tree shape seen by build_expression changed)", "src/gotranx/ode.lark")

    TERMS = {
        "SCIENTIFIC_NUMBER": G.terms.get("SCIENTIFIC_NUMBER", {}).get("shape", ""),
        "SIGN": '("+" | "-")',
        "PI": '"pi"',
    }
    sn = TERMS["SCIENTIFIC_NUMBER"]
    number = G.terms.get("NUMBER", {}).get("shape", "")
    ok_sn = bool(number) and sn == f'{number} (("E" | "e") (("+" | "-"))? {number})?'
    ctx.check(ok_sn, "R01.c", "src/gotranx/ode.lark::SCIENTIFIC_NUMBER", "NUMBER ((E|e) SIGN? NUMBER)?  (unsigned: a leading sign is an operator)", f"terminal SCIENTIFIC_NUMBER is `{sn[:120]}`; it must be an unsigned NUMBER with an optional exponent - a sign glued into the literal changes the meaning of -2**2 and x**-2**2", "src/gotranx/ode.lark")
    for tn in ("SIGN", "PI"):
        got = G.terms.get(tn, {}).get("shape")
        ctx.check(got == TERMS[tn], "R01.c", f"src/gotranx/ode.lark::{tn}", f"{tn}: {got}", f"terminal {tn} is `{got}`, vetted `{TERMS[tn]}`", "src/gotranx/ode.lark")

    # ---- R01.d function vocabulary ----------------------------------------------------------------------
    ctx.rule("R01.d", "function vocabulary: every funcname / logicalfuncname of the grammar is bound to the sympy object with the documented meaning; Conditional / ContinuousConditional bind their children to cond, true, false (, sigma)", floor=26)
    sympy = importlib.import_module("sympy")
    funcs = G.literals_of("funcname")
    branch_func = [b for t, b in branches.items() if t.replace('"', "'") == "tree.data == 'func'"]
    ctx.require(branch_func, "expr2symbols: `func` branch not found")
    bf = branch_func[0]
    abs_map = any(isinstance(n, ast.If) and norm(n.test).replace('"', "'") == "tree.children[0] == 'abs'" and any(isinstance(s, ast.Assign) and const_str(s.value) == "Abs" for s in n.body) for n in ast.walk(bf))
    generic = [c for c in ast.walk(bf) if isinstance(c, ast.Call) and isinstance(c.func, ast.Call) and (dotted(c.func.func) or "") == "getattr"]
    okg = bool(generic) and norm(generic[0].func) == "getattr(sp, funcname)" and norm(generic[0].args[0]) == "*[expr2symbols(c) for c in tree.children[1:]]"
    ctx.check(okg, "R01.d", e2.key("func-apply"), "getattr(sp, name)(*all arguments)", "expr2symbols: a function call is not built as getattr(sp, funcname)(*[every argument])", e2.where(bf))
    for lit in funcs:
        key = f"src/gotranx/ode.lark::funcname::{lit}"
        if lit not in FUNC_MEANING:
            ctx.fail("R01.d", key, f"grammar function `{lit}` has no vetted meaning", "src/gotranx/ode.lark")
            continue
        attr, obj = FUNC_MEANING[lit]
        looked = "Abs" if (lit == "abs" and abs_map) else lit
        ok = looked == attr and getattr(sympy, looked, None) is getattr(sympy, obj)
        ctx.check(ok, "R01.d", key, f"{lit} -> sympy.{obj}", f"grammar function `{lit}` is looked up as sympy.{looked}, which is not sympy.{obj}", "src/gotranx/ode.lark")
    missing = [k for k in FUNC_MEANING if k not in funcs]
    ctx.check(not missing, "R01.d", "src/gotranx/ode.lark::funcname::complete", "all documented functions are in the grammar", f"documented functions missing from the grammar: {missing}", "src/gotranx/ode.lark")
    logical = G.literals_of("logicalfuncname")
    bl = [b for t, b in branches.items() if t.replace('"', "'") == "tree.data == 'logicalfunc'"]
    ctx.require(bl, "expr2symbols: `logicalfunc` branch not found")
    bl = bl[0]
    for lit in logical:
        key = f"src/gotranx/ode.lark::logicalfuncname::{lit}"
        if lit in ("Conditional", "ContinuousConditional"):
            continue
        want = LOGICAL_MEANING.get(lit)
        ok = want is not None and getattr(sympy, lit, None) is getattr(sympy, want)
        ctx.check(ok, "R01.d", key, f"{lit} -> sympy.{want}", f"grammar function `{lit}` resolves to sympy.{lit}, which is not sympy.{want}", "src/gotranx/ode.lark")
    ctx.check(set(LOGICAL_MEANING) | {"Conditional", "ContinuousConditional"} == set(logical), "R01.d", "src/gotranx/ode.lark::logicalfuncname::complete", "logical vocabulary as documented", f"logical function names {sorted(logical)} differ from the documented set", "src/gotranx/ode.lark")
    generic = [c for c in ast.walk(bl) if isinstance(c, ast.Call) and isinstance(c.func, ast.Call) and (dotted(c.func.func) or "") == "getattr"]
    okg = bool(generic) and norm(generic[0].func) == "getattr(sp, tree.children[0])" and norm(generic[0].args[0]) == "*[expr2symbols(c) for c in tree.children[1:]]"
    ctx.check(okg, "R01.d", e2.key("logical-apply"), "getattr(sp, name)(*all arguments)", "expr2symbols: a logical function is not built as getattr(sp, name)(*[every argument]) (operands of And/Or could be dropped)", e2.where(bl))
    cc = [c for c in ast.walk(bl) if isinstance(c, ast.Call) and (dotted(c.func) or "") == "sympytools.Conditional"]
    okc = bool(cc) and {k.arg: norm(k.value) for k in cc[0].keywords} == {"cond": "expr2symbols(tree.children[1])", "true_value": "expr2symbols(tree.children[2])", "false_value": "expr2symbols(tree.children[3])"}
    guard = common.cond_chain(e2.node, [s for s in ast.walk(bl) if isinstance(s, ast.Return) and cc and cc[0] in ast.walk(s)][0]) if cc else []
    okc = okc and any(c.replace('"', "'") == "tree.children[0] == 'Conditional'" and pol for c, pol in (guard or []))
    ctx.check(okc, "R01.d", e2.key("Conditional"), "Conditional(cond, true, false) <- children 1, 2, 3", "expr2symbols: Conditional does not bind children 1, 2, 3 to cond, true_value, false_value", e2.where(bl))
    cc2 = [c for c in ast.walk(bl) if isinstance(c, ast.Call) and (dotted(c.func) or "") == "sympytools.ContinuousConditional"]
    locs = {norm(n.targets[0]): norm(n.value) for n in ast.walk(bl) if isinstance(n, ast.Assign)}
    okcc = (
        bool(cc2)
        and {k.arg: norm(k.value) for k in cc2[0].keywords} == {"cond": "cond", "true_value": "true_value", "false_value": "false_value", "sigma": "sigma"}
        and locs.get("true_value") == "expr2symbols(tree.children[2])"
        and locs.get("false_value") == "expr2symbols(tree.children[3])"
        and locs.get("sigma") == "expr2symbols(tree.children[4])"
        and locs.get("cond") == "sp.sympify(rel_op.value)(expr2symbols(arg1), expr2symbols(arg2))"
        and locs.get("(rel_op, arg1, arg2)") == "tree.children[1].children"
    )
    ctx.check(okcc, "R01.d", e2.key("ContinuousConditional"), "ContinuousConditional(rel(arg1, arg2), true, false, sigma) <- children 1..4", f"expr2symbols: ContinuousConditional bindings are {locs}", e2.where(bl))
    bc = [b for t, b in branches.items() if t.replace('"', "'") == "tree.data == 'constant'"]
    okpi = bool(bc) and any(isinstance(n, ast.If) and norm(n.test).replace('"', "'") == "tree.children[0] == 'pi'" and any(isinstance(s, ast.Return) and norm(s.value) == "sp.pi" for s in n.body) for n in ast.walk(bc[0]))
    ctx.check(okpi and G.terms["PI"]["shape"] == '"pi"', "R01.d", e2.key("pi"), "`pi` (exactly) is the constant", f"the constant pi is recognised as {G.terms['PI']['shape']} / by another test than `tree.children[0] == 'pi'`: identifiers such as Pi or PI could be captured by the constant", e2.where())
    bs = [b for t, b in branches.items() if t.replace('"', "'") == "tree.data == 'scientific'"]
    ctx.check(bool(bs) and any(isinstance(s, ast.Return) and norm(s.value) == "sp.sympify(tree.children[0])" for s in bs[0].body), "R01.d", e2.key("number"), "numbers are sympified literally", "expr2symbols: a number literal is not sp.sympify(token)", e2.where())

    # ---- R01.e conditional builders --------------------------------------------------------------------
    ctx.rule("R01.e", "Conditional -> Piecewise((true, cond), (false, True)); ContinuousConditional -> sigmoid blend with the weights on the right sides", floor=4)
    from sa import av as _ave

    from . import util as _ue
    from .c03 import _branches as _br

    cf = sm.func("sympytools.py", "Conditional")
    cv = _ue.value_of(ctx, cf)
    if _ave.has_unk(cv):
        ctx.undecided("R01.e", cf.key("piecewise"), f"what Conditional returns is not understood ({_ave.find_all(cv, 'unk')[0][1]})", cf.where())
    else:
        pc, tv, fv = cf.params[0], cf.params[1], cf.params[2]
        condv = {("sym", pc), ("call", "sympy.sympify", (("sym", pc),), ())}
        pws = [c for c in _ave.find_all(cv, "call") if c[1] == "sympy.Piecewise"]
        okpw = False
        got = None
        if pws:
            c = pws[0]
            got = _ave.show(c)
            pairs = c[2]
            okpw = len(pairs) == 2 and pairs[0][0] == "list" and pairs[1][0] == "list" and len(pairs[0][1]) == 2 and len(pairs[1][1]) == 2 and pairs[0][1][0] == ("sym", tv) and pairs[0][1][1] in condv and pairs[1][1][0] == ("sym", fv) and pairs[1][1][1] in (("sym", "sympy.true"), _ave.C(True))
        ctx.check(okpw, "R01.e", cf.key("piecewise"), "Piecewise((true_value, cond), (false_value, True))", f"sympytools.Conditional returns {got}, not Piecewise((true_value, cond), (false_value, True))", cf.where())
        leaves = _br(cv)
        direct = [(c, x) for c, x in leaves if x in (("sym", tv), ("sym", fv))]
        oks = len(direct) == 2
        for c, x in direct:
            is_bool = any("BooleanFalse" in _ave.show(k) and "BooleanTrue" in _ave.show(k) and k[0] != "not" for k in c)
            sel = [k for k in c if k in condv or (k[0] == "not" and k[1] in condv)]
            oks = oks and is_bool and len(sel) == 1 and ((sel[0][0] != "not") == (x == ("sym", tv)))
        ctx.check(oks or not direct, "R01.e", cf.key("evaluated-condition"), "an already evaluated condition selects its branch", "sympytools.Conditional: the shortcut for an evaluated boolean condition is not `true_value if cond else false_value`", cf.where())
    ccf = sm.func("sympytools.py", "ContinuousConditional")
    ccv = _ue.value_of(ctx, ccf)
    H_ref = te.parse_term("1 / (1 + exp((LHS - RHS) / sigma))", funcs={"exp": lambda e, c: ("fn", "exp", (e.ev(c.args[0]),))})
    if _ave.has_unk(ccv):
        ctx.undecided("R01.e", ccf.key("weights"), f"what ContinuousConditional returns is not understood ({_ave.find_all(ccv, 'unk')[0][1]})", ccf.where())
    else:
        pc = ccf.params[0]
        repl = {f"sympy.sympify({pc})": pc, f"{pc}.args[0]": "LHS", f"{pc}.args[1]": "RHS", f"{pc}.lhs": "LHS", f"{pc}.rhs": "RHS"}
        atoms_ = None
        want_gt = te.parse_term("true_value * (1 - H) + false_value * H", env={"H": H_ref})
        want_lt = te.parse_term("true_value * H + false_value * (1 - H)", env={"H": H_ref})
        leaves = [(c, x) for c, x in _br(ccv) if x[0] not in ("raise",) and x != _ave.NONE]
        okw = len(leaves) == 2
        seen_gt = seen_lt = False
        okh = True
        for c, x in leaves:
            ctxt = " and ".join(_ave.show(k) for k in c).replace(f"sympy.sympify({pc})", pc)
            try:
                term = _ue.av_term(x, atoms=atoms_, repl=repl)
            except Exception:
                okw = False
                continue
            is_gt = f"('>' in {pc}.rel_op)" in ctxt and f"not ('>' in {pc}.rel_op)" not in ctxt
            if term == (want_gt if is_gt else want_lt):
                seen_gt, seen_lt = seen_gt or is_gt, seen_lt or not is_gt
            else:
                okw = False
                if term == (want_lt if is_gt else want_gt):
                    okh = True  # the sigmoid is right, the sides are swapped
                else:
                    okh = False
        ctx.check(okh, "R01.e", ccf.key("H"), "H = 1 / (1 + exp((lhs - rhs) / sigma))", "ContinuousConditional: the blend is not built from H = 1 / (1 + exp((lhs - rhs) / sigma))", ccf.where())
        ctx.check(okw and seen_gt and seen_lt, "R01.e", ccf.key("weights"), "'>' relations: true*(1-H) + false*H; otherwise true*H + false*(1-H)", "ContinuousConditional: the branch test is not `'>' in cond.rel_op` or the sigmoid weights are on the wrong sides (the blend tends to the wrong value on each side of the threshold)", ccf.where())

    # ---- R01.f definition before use ----------------------------------------------------------------------
    ctx.rule("R01.f", "definition before use: dependencies are complete, the sorter receives (name, *its dependencies), rhs prints x.symbol = x.expr before values[k] = x.symbol, the template orders unpacking, allocation, body, return", floor=5)
    from sa import av as _avf

    fd = sm.func("atoms.py", "Expression._find_dependencies")
    fv = util.value_of(ctx, fd)
    if _avf.has_unk(fv):
        ctx.undecided("R01.f", fd.key("complete"), f"what _find_dependencies collects is not understood ({_avf.find_all(fv, 'unk')[0][1]})", fd.where())
    else:
        inner = fv
        while inner[0] == "call" and inner[1] in ("frozenset", "set", "tuple", "sorted", "list") and len(inner[2]) == 1:
            inner = _avf._unwrap_seq(inner[2][0])
        inner = _avf._unwrap_seq(inner)
        okd = False
        if inner[0] == "comp":
            bv = ("bv", inner[1])
            it_ok = inner[2] == ("mcall", ("sym", "self.tree"), "iter_subtrees", (), ())
            cond_ok = inner[4] == (("cmp", "==", ("attr", bv, "data"), _avf.C("variable")),)
            first = ("sub", ("attr", bv, "children"), _avf.C(0))
            item_ok = len(inner[3]) == 1 and inner[3][0] in (_avf.mk_s((("h", first),)), first, ("attr", first, "value"))
            okd = it_ok and cond_ok and item_ok
        ctx.check(okd, "R01.f", fd.key("complete"), "every `variable` subtree is a dependency", f"Expression._find_dependencies collects {_avf.show(fv)[:140]}, not the name of every `variable` node of the expression tree (a used name could be missing from the dependency graph and be defined after its use)", fd.where())
    sa = sm.func("ode.py", "sort_assignments")
    adds = [c for c in ast.walk(sa.node) if isinstance(c, ast.Call) and norm(c.func) == "sorter.add"]
    oka = bool(adds) and len(adds[0].args) == 2 and norm(adds[0].args[0]).endswith(".name") and isinstance(adds[0].args[1], ast.Starred)
    if oka:
        av = norm(adds[0].args[0]).split(".")[0]
        star = adds[0].args[1].value
        srcs = {norm(star)}
        for nm in [x.id for x in ast.walk(star) if isinstance(x, ast.Name)]:
            srcs |= {norm(a.value) for a in ast.walk(sa.node) if isinstance(a, (ast.Assign, ast.AnnAssign)) and a.value is not None and any(isinstance(t, ast.Name) and t.id == nm for t in (a.targets if isinstance(a, ast.Assign) else [a.target]))}
        oka = any(f"{av}.value.dependencies" in s_ for s_ in srcs)
    so = any(isinstance(c, ast.Call) and norm(c.func) == "sorter.static_order" for c in ast.walk(sa.node))
    ctx.check(oka and so, "R01.f", sa.key("node-predecessors"), "sorter.add(name, *dependencies of that assignment); static_order()", "sort_assignments does not feed graphlib with (assignment name, *its own dependencies) or does not use static_order(): definitions could be printed after their use", sa.where())

    cg = util.nf(ctx, "codegen/base.py", "CodeGenerator.rhs")
    loops = [n for n in ast.walk(cg.node) if isinstance(n, ast.For) and "sorted_assignments" in util.ctext(cg, n.iter) and isinstance(n.target, ast.Name)]
    okr = False
    why = "no loop over the sorted assignments"
    acc_list = None
    if loops:
        l = loops[0]
        x = l.target.id
        okr = True
        saw_store = False
        for p_ in te.enumerate_paths(l.body):
            defs_at, stores_at = [], []
            for i, st in enumerate(p_.effects):
                for c in ast.walk(st):
                    if isinstance(c, ast.Call) and (dotted(c.func) or "").endswith("_doprint") and len(c.args) >= 2:
                        a0, a1 = util.ctext(cg, c.args[0]), util.ctext(cg, c.args[1])
                        if a0 == f"{x}.symbol" and a1 == f"{x}.expr":
                            defs_at.append(i)
                        elif isinstance(c.args[0], ast.Subscript) and a1 == f"{x}.symbol":
                            stores_at.append(i)
                if isinstance(st, ast.Expr) and isinstance(st.value, ast.Call) and isinstance(st.value.func, ast.Attribute) and st.value.func.attr == "append" and isinstance(st.value.func.value, ast.Name):
                    acc_list = acc_list or st.value.func.value.id
            if not defs_at:
                okr, why = False, f"path [{p_.pred()}] does not print {x}.symbol = {x}.expr"
            if stores_at:
                saw_store = True
                if not defs_at or min(stores_at) < min(defs_at):
                    okr, why = False, f"path [{p_.pred()}] stores the value before the assignment is printed"
        if not saw_store:
            okr, why = False, "no path stores a derivative into the result array"
    ctx.check(okr, "R01.f", cg.key("define-then-store"), "x.symbol = x.expr is printed before values[k] = x.symbol", f"CodeGenerator.rhs: {why}", cg.where())
    from sa import av as _av

    sk = util.skeleton(ctx, "R01.f", "templates/python.py", "method", {"nan_to_num": _av.C(False)})
    if sk is not None:
        order = ["{states}", "{parameters}", "{missing_variables}", "{shape_info}", "{return_name} = {values_type}", "{values}", "return {return_name}"]
        pos = [sk.raw.find(o) for o in order]
        ctx.check(all(p >= 0 for p in pos) and pos == sorted(pos), "R01.f", sk.func.key("statement-order"), "states, parameters, missing, allocation, body, return", f"python method template: statement order is {pos}", sk.func.where())
    tc = util.template_method_call(cg)
    okw = tc is not None and (const_str(call_kw(tc, "name")) == "rhs") and call_kw(tc, "values") is not None and acc_list is not None and util.depends_on(cg.node, call_kw(tc, "values"), acc_list)
    okw = okw and call_kw(tc, "states") is not None and call_kw(tc, "parameters") is not None and util.ctext(cg, call_kw(tc, "states")) != util.ctext(cg, call_kw(tc, "parameters"))
    ctx.check(okw, "R01.f", cg.key("template-wiring"), "the printed body reaches the template's `values` slot of the function named rhs", "CodeGenerator.rhs does not hand the printed assignments to template.method(name='rhs', values=...)", cg.where())

    # ---- R01.i the derivative of each state lands in that state's slot --------------------------------
    ctx.rule("R01.i", "rhs stores the derivative of each state at the slot that state_index / init_state_values / the state unpacking use (STATE slot family)", floor=6)
    from .c04 import slot_families

    slot_families(ctx, "R01.i", only_family="STATE", floor=False, producers=lambda p: p.func.qualname in ("CodeGenerator.initial_state_values", "CodeGenerator._state_assignments", "CodeGenerator.rhs"))

    ctx.rule("R01.j", "assembly: every expression is built from its own tree with the model-wide symbol table, printed by the backend printer and returned unmodified (no nan_to_num); the module contains imports, index/init functions, rhs", floor=8)
    assembly(ctx, "R01.j")

    # ---- R01.g time aliases -------------------------------------------------------------------------------
    ctx.rule("R01.g", "`t` and `time` both denote the one time symbol, which is the formal argument t of the generated functions", floor=3)
    from sa import av as _avg

    from . import odemodel as _om

    mo = sm.func("ode.py", "make_ode")
    mv_, _e = _om.construction(ctx, "make_ode")
    rc = _om.resolve_call(mv_)
    if rc is None:
        ctx.undecided("R01.g", mo.key("aliases"), "make_ode is not understood", mo.where())
    else:
        passed = dict(rc[3]).get("symbols", rc[2][1] if len(rc[2]) > 1 else None)
        _base, extra = _om.setitem_chain(passed) if passed is not None else (None, {})
        tsym = ("call", "sympy.Symbol", (_avg.C("t"),), ())
        odec = [c for c in _avg.find_all(mv_, "call") if c[1].split(".")[-1] == "ODE"]
        okt = bool(odec) and dict(odec[0][3]).get("t") == tsym
        ctx.check(okt and extra.get("t") == tsym and extra.get("time") == tsym, "R01.g", mo.key("aliases"), "symbols['t'] = symbols['time'] = Symbol('t')", f"make_ode binds the time aliases as {{{', '.join(k + ': ' + _avg.show(x) for k, x in extra.items())}}} (the model's t is {_avg.show(dict(odec[0][3]).get('t')) if odec and dict(odec[0][3]).get('t') else None})", mo.where())
    mv = sm.func("ode.py", "ODE.missing_variables")
    mvv = util.value_of(ctx, mv)
    if _avg.has_unk(mvv):
        ctx.undecided("R01.g", mv.key("t-is-known"), "ODE.missing_variables is not understood", mv.where())
    else:
        tests = [c for c in _avg.find_all(mvv, "cmp") if c[1] in ("!=", "not in", "==", "in") and (c[3] == _avg.C("t") or c[2] == _avg.C("t"))]
        ctx.check(bool(tests), "R01.g", mv.key("t-is-known"), "`t` is never a missing variable", "ODE.missing_variables does not treat `t` as a known symbol", mv.where())
    pa = sm.func("codegen/python.py", "PythonCodeGenerator._rhs_arguments")
    from .c04 import func_tuple as _ftg

    kwg, vg = _ftg(ctx, pa)
    entg = {}
    if kwg and kwg.get("arguments") is not None:
        for cp_ in _avg.find_all(kwg["arguments"], "comp"):
            for it_ in cp_[3]:
                if it_[0] == "sub" and it_[1][0] == "dict":
                    entg = {k_[1]: x_ for k_, x_ in it_[1][1] if k_[0] == "c"}
    if not entg:
        ctx.undecided("R01.g", pa.key("formal-t"), "the formal argument table is not understood", pa.where())
    else:
        ctx.check(entg.get("t") == _avg.C("t"), "R01.g", pa.key("formal-t"), "formal time argument is `t`", f"the formal time argument is {_avg.show(entg.get('t')) if entg.get('t') else None}", pa.where())

    # ---- R01.h printer coverage -----------------------------------------------------------------------------
    ctx.rule("R01.h", "NumPy printer coverage: every producible class resolves to a vetted correct method or to a gotranx method with the right numpy function and operand structure", floor=40)
    kf = M.class_table("numpy", "_kf") or {}
    for mod, name in pm.P_CLASSES:
        if name in ("sign", "DiracDelta"):
            continue  # only differentiation in the schemes produces them; rhs never contains them
        r = M.resolve("numpy", mod, name)
        key = f"numpy-printer::{name}"
        if not r.is_gotranx:
            v = pm.vetted("numpy", r)
            if v is None:
                ctx.fail("R01.h", key, f"{name} is printed by the inherited {r}, which has not been vetted", "")
            else:
                ctx.check(v.get("ok", False), "R01.h", key, f"{r} (vetted)", f"numpy printer: {name} falls through to {r}: {v.get('why', 'not value-preserving')}", "")
    printers.check_no_unvetted_override(ctx, "R01.h", "numpy", skip=("sign", "DiracDelta"))
    fl = M.method("numpy", "_print_Float")
    okfl = fl is not None and any(isinstance(n, ast.Return) and norm(n.value) in ("self._print(str(float(flt)))", "self._print(repr(float(flt)))", "repr(float(flt))", "str(float(flt))") for n in ast.walk(fl.node))
    ctx.check(okfl, "R01.h", "numpy-printer::Float::repr", "Float -> shortest round-trip repr", "numpy printer: a Float is not printed as str(float(value)) (digits would be lost or added)", fl.where() if fl else "")
    for cname, fn in (("And", "numpy.logical_and"), ("Or", "numpy.logical_or")):
        f = M.method("numpy", f"_print_{cname}")
        frs = " ".join(pm.fragments(f)) if f else ""
        other = ({"numpy.logical_and", "numpy.logical_or"} - {fn}).pop()
        ctx.check(fn in frs and other not in frs and "reduce" not in frs, "R01.h", f"numpy-printer::{cname}::function", f"{cname} -> {fn}", f"numpy printer: {cname} is printed with `{frs}`, expected {fn} over all operands", f.where() if f else "")
    nf = M.method("numpy", "_print_nested")
    if nf is not None:
        from .c03 import check_nested

        check_nested(ctx, "R01.h", nf)
    eq = M.method("numpy", "_print_Equality")
    ctx.check(eq is not None and "({self._print(lhs)} == {self._print(rhs)})" in pm.fragments(eq), "R01.h", "numpy-printer::Equality::text", "(lhs == rhs)", "numpy printer: Equality is not printed as (lhs == rhs)", eq.where() if eq else "")
    hp = M.method("numpy", "_hprint_Pow")
    a = hp.node.args if hp else None
    oksq = hp is not None and any(isinstance(dv, ast.Constant) and dv.value == "numpy.sqrt" for dv in a.defaults) and any(isinstance(n, ast.Return) and norm(n.value) == "super()._hprint_Pow(expr, rational, sqrt)" for n in ast.walk(hp.node))
    ctx.check(oksq, "R01.h", "numpy-printer::Pow::sqrt", "sqrt -> numpy.sqrt", "numpy printer: _hprint_Pow no longer passes sqrt='numpy.sqrt' on to sympy", hp.where() if hp else "")
    pwm = M.method("numpy", "_print_Piecewise")
    check_where_nesting(ctx, "R01.h", pwm)
    sp_ = sm.func("codegen/base.py", "_print_Piecewise")
    locs = {norm(n.targets[0]): norm(n.value) for n in ast.walk(sp_.node) if isinstance(n, ast.Assign)}
    okb = locs.get("exprs") == "[printer._print(arg.expr) for arg in expr.args]" and locs.get("conds") == "[print_cond(arg.cond) for arg in expr.args]" and any(isinstance(n, ast.Return) and norm(n.value) == "(tuple(conds), tuple(exprs))" for n in ast.walk(sp_.node))
    ctx.check(okb, "R01.h", sp_.key("pairs"), "conditions and expressions of all pairs, aligned", f"base._print_Piecewise: conds/exprs are {locs.get('conds')} / {locs.get('exprs')}", sp_.where())


def check_where_nesting(ctx: Ctx, rule: str, f):
    """numpy.where(c1, e1, numpy.where(c2, e2, default)) built from the (cond, expr) pairs."""
    key = "numpy-printer::Piecewise::nesting"
    if f is None:
        ctx.fail(rule, key, "numpy printer has no _print_Piecewise of its own", "")
        return
    # the generic (non-Assignment) branch
    loops = [n for n in ast.walk(f.node) if isinstance(n, ast.For) and norm(n.iter) == "zip(conds, exprs)"]
    ok = False
    if not loops:
        # another algorithm builds the nest (the known idiom is a loop over zip(conds, exprs) appending to a list)
        frs = " ".join(pm.fragments(f))
        if "numpy.where(" not in frs:
            ctx.fail(rule, key, "numpy printer _print_Piecewise does not emit numpy.where( at all", f.where())
        else:
            ctx.undecided(rule, key, "the where-nest is not built by the known loop over zip(conds, exprs); pairing of branches and conditions is not judged", f.where())
        return
    if loops:
        l = loops[0]
        c, e = [x.id for x in l.target.elts]
        app = [fstring_skeleton(s.value.args[0]) for s in l.body if isinstance(s, ast.Expr) and isinstance(s.value, ast.Call) and norm(s.value.func) == "result.append"]
        want = ["numpy.where(", "{" + c + "}", ", ", "{" + e + "}", ", "]
        ok = app == want
        why = f"loop appends {app}"
        src = norm(f.node)
        ok = ok and "result = result[:-6]" in src and f"result.append(f', {{{e}}}')" in src and "result.append(')' * (len(conds) - 1))" in src and f"if {c} == 'True':" in src
        if not ok:
            why += "; tail handling (drop the last `numpy.where(True, e, ` and close len(conds)-1 parentheses) differs"
        calls = [x for x in ast.walk(f.node) if isinstance(x, ast.Call) and (dotted(x.func) or "") == "_print_Piecewise"]
        ok = ok and bool(calls) and [norm(a) for a in calls[0].args] == ["self", "expr"]
    ctx.check(ok, rule, key, "where(c1, e1, where(c2, e2, default))", f"numpy printer _print_Piecewise: {why}; branches would be paired with the wrong conditions or the default lost", f.where())


def assembly(ctx: Ctx, rule: str):
    """R01.j: every assignment's expression is built from its own tree with the model-wide symbol table and reaches rhs unmodified."""
    sm = ctx.sm
    rx = sm.func("ode.py", "resolve_expressions")
    loops = [n for n in ast.walk(rx.node) if isinstance(n, ast.For)]
    ok = len(loops) == 2 and norm(loops[0].iter) == rx.params[0] and norm(loops[1].iter) == f"{loops[0].target.id}.assignments" and not any(isinstance(n, (ast.If, ast.Continue, ast.Break)) for n in ast.walk(loops[0]))
    app = [c for c in ast.walk(rx.node) if isinstance(c, ast.Call) and norm(c.func) == "assignments.append"]
    ok = ok and bool(app) and norm(app[0].args[0]) == f"{loops[1].target.id}.resolve_expression({rx.params[1]})" if loops and len(loops) == 2 else False
    comp = [c for c in ast.walk(rx.node) if isinstance(c, ast.Call) and norm(c.func) == "Component"]
    okc = bool(comp) and {k.arg: norm(k.value) for k in comp[0].keywords} == {"name": "component.name", "states": "component.states", "parameters": "component.parameters", "assignments": "frozenset(assignments)"}
    ctx.check(ok and okc, rule, rx.key("all-assignments"), "every assignment of every component is resolved with the model-wide symbols", "resolve_expressions does not resolve every assignment of every component (or rebuilds the component from something else)", rx.where())
    from sa import av as _avm

    from . import odemodel

    mo = sm.func("ode.py", "make_ode")
    mv_, _e = odemodel.construction(ctx, "make_ode")
    rc = odemodel.resolve_call(mv_)
    if rc is None and _avm.has_unk(mv_):
        ctx.undecided(rule, mo.key("symbol-table"), "make_ode is not understood", mo.where())
    else:
        okm = False
        if rc is not None:
            kw = dict(rc[3])
            passed = kw.get("symbols", rc[2][1] if len(rc[2]) > 1 else None)
            comps = kw.get("components", rc[2][0] if rc[2] else None)
            base, _extra = odemodel.setitem_chain(passed) if passed is not None else (None, {})
            okm = comps == ("sym", "components") and base is not None and odemodel.field_of(base, 2) is not None
        ctx.check(okm, rule, mo.key("symbol-table"), "symbols of all components (gather_atoms) are used to resolve", "make_ode does not resolve the expressions of the given components with the symbol table gathered from all components", mo.where())
    for cls in ("Assignment", "StateDerivative"):
        f = sm.func("atoms.py", f"{cls}.resolve_expression")
        ex = [n for n in ast.walk(f.node) if isinstance(n, ast.Assign) and norm(n.targets[0]) == "expr"]
        ret = [c for n in ast.walk(f.node) if isinstance(n, ast.Return) and isinstance(n.value, ast.Call) for c in [n.value]]
        okr = bool(ex) and norm(ex[0].value) == f"self.value.resolve({f.params[1]})" and bool(ret) and norm(call_kw(ret[0], "expr")) == "expr" and norm(call_kw(ret[0], "name")) == "self.name" and norm(call_kw(ret[0], "symbol")) == "self.symbol"
        ctx.check(okr, rule, f.key("own-tree"), "expr = own tree resolved; name and symbol kept", f"{cls}.resolve_expression does not build the new atom from its own resolved tree", f.where())
    er = sm.func("atoms.py", "Expression.resolve")
    rets = [norm(n.value) for n in ast.walk(er.node) if isinstance(n, ast.Return)]
    ctx.check(rets == ["build_expression(self.tree, symbols=symbols)"], rule, er.key(), "build_expression(self.tree, symbols)", f"Expression.resolve returns {rets}", er.where())
    from sa import av as _av


    T = tm.TemplateModel(sm)
    mt = T.func("templates/python.py", "method")
    a = mt.node.args
    dflt = dict(zip([x.arg for x in a.args][len(a.args) - len(a.defaults):], a.defaults))
    okn = "nan_to_num" not in dflt or (isinstance(dflt["nan_to_num"], ast.Constant) and dflt["nan_to_num"].value is False)
    passed = [f.qualname for f in sm.funcs_in("codegen/base.py") for c in ast.walk(f.node) if isinstance(c, ast.Call) and call_kw(c, "nan_to_num") is not None]
    ctx.check(okn and not passed, rule, mt.key("nan_to_num"), "results are returned as computed (no nan_to_num)", f"the python method template replaces NaN results by 0 (default {norm(dflt.get('nan_to_num')) if 'nan_to_num' in dflt else None}, passed by {passed})", mt.where())
    sk = util.skeleton(ctx, rule, "templates/python.py", "method", {"nan_to_num": _av.C(False)} if "nan_to_num" in mt.params else None)
    if sk is not None:
        last = [ln.strip() for ln in sk.raw.splitlines() if ln.strip()][-1]
        ctx.check(last == "return {return_name}", rule, mt.key("return"), "return <result array>", f"python method template ends with `{last}` (by default), not with `return <result array>`", mt.where())
    dp = sm.func("codegen/base.py", "CodeGenerator._doprint")
    rets = [norm(n.value) for n in ast.walk(dp.node) if isinstance(n, ast.Return)]
    okd = "self.printer.doprint(Assignment(lhs, rhs))" in rets and any(fstring_skeleton(n.value) == "{self.variable_prefix}{self.printer.doprint(Assignment(lhs, rhs))}" for n in ast.walk(dp.node) if isinstance(n, ast.Return))
    ctx.check(okd, rule, dp.key(), "lhs = rhs printed by the backend printer", f"CodeGenerator._doprint returns {rets}", dp.where())
    gc = sm.func("cli/gotran2py.py", "get_code")
    lst = [n for n in ast.walk(gc.node) if isinstance(n, ast.List) and any(norm(e) == "codegen.rhs()" for e in n.elts)]
    okg = bool(lst) and norm(lst[0].elts[0]) == "codegen.imports()" and {"codegen.state_index()", "codegen.parameter_index()", "codegen.initial_state_values()", "codegen.initial_parameter_values()", "codegen.rhs()", "codegen.monitor_values()"} <= {norm(e) for e in lst[0].elts}
    ctx.check(okg, rule, gc.key("module-parts"), "imports first; index, init, rhs and monitor functions are all emitted", "gotran2py.get_code no longer assembles imports, index/init functions, rhs and monitor_values", gc.where())
