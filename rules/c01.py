"""C01 - the NumPy rhs computes the model's derivatives (structural necessary conditions of the front end and of rhs emission)."""

from __future__ import annotations

import ast
import importlib

from sa import pm, te, tm
from sa.core import Ctx
from sa.sm import call_kw, const_str, dotted, find_calls, fstring_skeleton, norm

from . import common, printers, util
from .c11 import grammar

LADDER = {
    "expression": "?expression: term (_add_op term)*",
    "term": "?term: factor (_mul_op factor)*",
    "factor": "?factor: (_unary_op factor | power)",
    "power": '?power: signedatom ("**" factor)?',
    "signedatom": "?signedatom: (SIGN signedatom | atom | func | logicalfunc)",
    "atom": '?atom: ("(" expression ")" | constant | scientific | variable)',  # alternatives in canonical (sorted) order
    "_unary_op": '!_unary_op: ("+" | "-" | "~")',
    "_add_op": '!_add_op: ("+" | "-")',
    "_mul_op": '!_mul_op: ("*" | "/")',
    "scientific": "scientific: SCIENTIFIC_NUMBER",
    "constant": "constant: PI",
    "variable": "variable: VARIABLE",
    "func": '?func: funcname "(" expression ("," expression)* (",")* ")"',
    "logicalfunc": '?logicalfunc: logicalfuncname "(" expression ("," expression)* (",")? ")"',
}

# grammar function name -> (sympy attribute that build_expression looks up, the sympy object it must be)
FUNC_MEANING = {
    "cos": ("cos", "cos"), "tan": ("tan", "tan"), "sin": ("sin", "sin"), "acos": ("acos", "acos"), "atan": ("atan", "atan"), "asin": ("asin", "asin"),
    "log": ("log", "log"), "ln": ("ln", "log"), "sqrt": ("sqrt", "sqrt"), "exp": ("exp", "exp"), "Abs": ("Abs", "Abs"), "abs": ("Abs", "Abs"),
    "floor": ("floor", "floor"), "Mod": ("Mod", "Mod"),
}
LOGICAL_MEANING = {"Lt": "StrictLessThan", "Gt": "StrictGreaterThan", "Le": "LessThan", "Ge": "GreaterThan", "And": "And", "Or": "Or", "Eq": "Equality", "Not": "Not"}

BIN_REF = {"+": "fst + snd", "-": "fst + (-1) * snd", "*": "fst * snd", "/": "fst * snd ** (-1)", "**": "fst ** snd"}
UN_REF = {"-": "(-1) * arg", "+": "arg"}


REF_EXPR2SYMBOLS = '''
def expr2symbols(tree):
    if tree.data in ("expression", "term"):
        fst = expr2symbols(tree.children[0])
        for i in range(1, len(tree.children), 2):
            fst = binary_op(tree.children[i], fst, expr2symbols(tree.children[i + 1]))
        return fst
    if tree.data == "factor":
        return unary_op(tree.children[0], expr2symbols(tree.children[1]))
    if tree.data == "power":
        return binary_op("**", expr2symbols(tree.children[0]), expr2symbols(tree.children[1]))
    if tree.data == "variable":
        try:
            return symbols_[str(tree.children[0])]
        except KeyError as e:
            raise MissingSymbolError(symbol=str(tree.children[0]), line_no=tree.meta.line) from e
    if tree.data == "scientific":
        return sp.sympify(tree.children[0])
    if tree.data == "constant":
        if tree.children[0] == "pi":
            return sp.pi
    if tree.data == "func":
        funcname = tree.children[0]
        if tree.children[0] == "abs":
            funcname = "Abs"
        return getattr(sp, funcname)(*[expr2symbols(c) for c in tree.children[1:]])
    if tree.data == "logicalfunc":
        if tree.children[0] == "Conditional":
            return sympytools.Conditional(cond=expr2symbols(tree.children[1]), true_value=expr2symbols(tree.children[2]), false_value=expr2symbols(tree.children[3]))
        elif tree.children[0] == "ContinuousConditional":
            rel_op, arg1, arg2 = tree.children[1].children
            cond = sp.sympify(rel_op.value)(expr2symbols(arg1), expr2symbols(arg2))
            true_value = expr2symbols(tree.children[2])
            false_value = expr2symbols(tree.children[3])
            sigma = expr2symbols(tree.children[4])
            return sympytools.ContinuousConditional(cond=cond, true_value=true_value, false_value=false_value, sigma=sigma)
        return getattr(sp, tree.children[0])(*[expr2symbols(c) for c in tree.children[1:]])
    raise InvalidTreeError(tree=tree)
'''

REF_REL2PW = '''
def relational_to_piecewise(expr):
    if expr.is_Relational:
        return sp.Piecewise((1, expr), (0, True))
    return expr
'''

REF_SORT_ASSIGNMENTS = '''
def sort_assignments(assignments, assignments_only=True):
    sorter = TopologicalSorter()
    assignment_names = set()
    for assignment in assignments:
        assignment_names.add(assignment.name)
        if assignment.value is None:
            raise exceptions.GotranxError("msg")
        sorter.add(assignment.name, *sorted(assignment.value.dependencies))
    static_order = tuple(sorter.static_order())
    if assignments_only:
        static_order = tuple([name for name in static_order if name in assignment_names])
    return static_order
'''

REF_RESOLVE_EXPRESSIONS = '''
def resolve_expressions(components, symbols):
    new_components = []
    for component in components:
        assignments = []
        for assignment in component.assignments:
            assignments.append(assignment.resolve_expression(symbols))
        new_components.append(Component(name=component.name, states=component.states, parameters=component.parameters, assignments=frozenset(assignments)))
    return tuple(new_components)
'''

REF_ASSIGNMENT_RESOLVE = '''
def resolve_expression(self, symbols):
    if self.value is None:
        raise exceptions.ResolveExpressionError(name=self.name)
    expr = self.value.resolve(symbols)
    return type(self)(name=self.name, value=self.value, components=self.components, unit_str=self.unit_str, unit=self.unit, expr=expr, symbol=self.symbol, description=self.description, comment=self.comment)
'''

REF_DERIVATIVE_RESOLVE = '''
def resolve_expression(self, symbols):
    if self.value is None:
        raise exceptions.ResolveExpressionError(name=self.name)
    expr = self.value.resolve(symbols)
    return StateDerivative(name=self.name, value=self.value, components=self.components, unit_str=self.unit_str, unit=self.unit, symbol=self.symbol, expr=expr, state=self.state, description=self.description, comment=self.comment)
'''

REF_EXPRESSION_RESOLVE = '''
def resolve(self, symbols):
    return build_expression(self.tree, symbols=symbols)
'''

REF_BASE_PIECEWISE = """
def _print_Piecewise(printer, expr, **kwargs):
    from sympy.logic.boolalg import ITE, simplify_logic

    def print_cond(cond):
        if cond.has(ITE):
            return printer._print(simplify_logic(cond))
        else:
            return printer._print(cond)

    expr = sympy.simplify(expr)
    exprs = [printer._print(arg.expr) for arg in expr.args]
    conds = [print_cond(arg.cond) for arg in expr.args]
    return tuple(conds), tuple(exprs)
"""

REF_DOPRINT = '''
def _doprint(self, lhs, rhs, use_variable_prefix=False):
    if use_variable_prefix:
        return f"{self.variable_prefix}{self.printer.doprint(Assignment(lhs, rhs))}"
    return self.printer.doprint(Assignment(lhs, rhs))
'''


def op_table(ctx: Ctx, rule: str, fname: str, ref: dict, operators: list[str]):
    """For each operator literal: specialise the function for that literal (partial evaluation over constants) and
    compare the term it returns with the language definition."""
    f = ctx.sm.func("expressions.py", fname)
    mod = ctx.sm.module("expressions.py")
    pe = te.PEval(mod, identity={"relational_to_piecewise", "sympify"})
    params = f.params
    for op in operators + ["<other>"]:
        args = {params[0]: ("const", op)}
        for p_ in params[1:]:
            args[p_] = te.atom(p_)
        kind, val = pe.outcome(f.node, args)
        key = f.key(f"operator::{op}")
        if op in ref:
            env = {p_: te.atom(p_) for p_ in params[1:]}
            want = te.parse_term(ref[op].replace("fst", params[1]).replace("snd", params[2] if len(params) > 2 else "snd").replace("arg", params[1]) if fname == "unary_op" else ref[op].replace("fst", params[1]).replace("snd", params[2]), env=env)
            ok = kind == "return" and val == want
            ctx.check(
                ok,
                rule,
                key,
                f"`{op}` -> {te.show(want)}",
                f"{fname}: operator `{op}` " + (f"builds {te.show(val)}" if kind == "return" and isinstance(val, tuple) and val[0] not in ('callable', 'dict', 'const') else f"gives {kind} {val if kind != 'unknown' else '(shape not understood)'}") + f"; the language defines it as {te.show(want)}",
                f.where(),
                trace=[f"found   : {te.show(val) if kind == 'return' and isinstance(val, tuple) and val[0] not in ('callable', 'dict', 'const') else (kind, val)}", f"expected: {te.show(want)}"],
            )
        else:
            ctx.check(kind == "raise", rule, key, f"`{op}` is rejected explicitly", f"{fname}: the grammar can produce operator `{op}` (or anything else); it must be rejected with an exception, found {kind} {te.show(val) if kind == 'return' and isinstance(val, tuple) and val and val[0] not in ('const',) else val}", f.where())


def run(ctx: Ctx):
    sm = ctx.sm
    G = grammar(ctx)
    M = printers.model(ctx)
    ctx.assume("numerical equality to rounding over all programs x inputs is NOT decided; sympy's own inherited printers are trusted as recorded in the vetted table")

    front_end(ctx, {k: "R01." + k for k in "abcde"})

    # ---- R01.f definition before use ----------------------------------------------------------------------
    ctx.rule("R01.f", "definition before use: dependencies are complete, the sorter receives (name, *its dependencies), rhs prints x.symbol = x.expr before values[k] = x.symbol, the template orders unpacking, allocation, body, return", floor=5)
    check_dependencies_complete(ctx, "R01.f")
    util.same_as_reference(ctx, "R01.f", "ode.py", "sort_assignments", REF_SORT_ASSIGNMENTS, "node-predecessors", "sorter.add(name, *sorted dependencies of that assignment) for every assignment; static_order(); optional filter to assignment names", "sort_assignments does not feed graphlib with (assignment name, *its own sorted dependencies) for every assignment and return static_order() (filtered to the assignments): definitions could be printed after their use")
    cg = util.nf(ctx, "codegen/base.py", "CodeGenerator.rhs")
    loops = [n for n in ast.walk(cg.node) if isinstance(n, ast.For) and "sorted_assignments" in util.ctext(cg, n.iter) and isinstance(n.target, ast.Name)]
    okr = False
    why = "no loop over the sorted assignments"
    acc_list = None
    if loops:
        l = loops[0]
        x = l.target.id
        okr = True
        saw_store = False
        for p_ in te.enumerate_paths(l.body):
            defs_at, stores_at = [], []
            for i, st in enumerate(p_.effects):
                for c in ast.walk(st):
                    if isinstance(c, ast.Call) and (dotted(c.func) or "").endswith("_doprint") and len(c.args) >= 2:
                        a0, a1 = util.ctext(cg, c.args[0]), util.ctext(cg, c.args[1])
                        if a0 == f"{x}.symbol" and a1 == f"{x}.expr":
                            defs_at.append(i)
                        elif isinstance(c.args[0], ast.Subscript) and a1 == f"{x}.symbol":
                            stores_at.append(i)
                if isinstance(st, ast.Expr) and isinstance(st.value, ast.Call) and isinstance(st.value.func, ast.Attribute) and st.value.func.attr == "append" and isinstance(st.value.func.value, ast.Name):
                    acc_list = acc_list or st.value.func.value.id
            if not defs_at:
                okr, why = False, f"path [{p_.pred()}] does not print {x}.symbol = {x}.expr"
            if stores_at:
                saw_store = True
                if not defs_at or min(stores_at) < min(defs_at):
                    okr, why = False, f"path [{p_.pred()}] stores the value before the assignment is printed"
        if not saw_store:
            okr, why = False, "no path stores a derivative into the result array"
    ctx.check(okr, "R01.f", cg.key("define-then-store"), "x.symbol = x.expr is printed before values[k] = x.symbol", f"CodeGenerator.rhs: {why}", cg.where())
    from sa import av as _av

    sk = util.skeleton(ctx, "R01.f", "templates/python.py", "method", {"nan_to_num": _av.C(False)})
    if sk is not None:
        order = ["{states}", "{parameters}", "{missing_variables}", "{shape_info}", "{return_name} = {values_type}", "{values}", "return {return_name}"]
        pos = [sk.raw.find(o) for o in order]
        ctx.check(all(p >= 0 for p in pos) and pos == sorted(pos), "R01.f", sk.func.key("statement-order"), "states, parameters, missing, allocation, body, return", f"python method template: statement order is {pos}", sk.func.where())
    tc = util.template_method_call(cg)
    okw = tc is not None and (const_str(call_kw(tc, "name")) == "rhs") and call_kw(tc, "values") is not None and acc_list is not None and util.depends_on(cg.node, call_kw(tc, "values"), acc_list)
    okw = okw and call_kw(tc, "states") is not None and call_kw(tc, "parameters") is not None and util.ctext(cg, call_kw(tc, "states")) != util.ctext(cg, call_kw(tc, "parameters"))
    ctx.check(okw, "R01.f", cg.key("template-wiring"), "the printed body reaches the template's `values` slot of the function named rhs", "CodeGenerator.rhs does not hand the printed assignments to template.method(name='rhs', values=...)", cg.where())

    # ---- R01.i the derivative of each state lands in that state's slot --------------------------------
    ctx.rule("R01.i", "rhs stores the derivative of each state at the slot that state_index / init_state_values / the state unpacking use (STATE slot family)", floor=6)
    from .c04 import slot_families

    slot_families(ctx, "R01.i", only_family="STATE", floor=False, producers=lambda p: p.func.qualname in ("CodeGenerator.initial_state_values", "CodeGenerator._state_assignments", "CodeGenerator.rhs"))

    ctx.rule("R01.j", "assembly: every expression is built from its own tree with the model-wide symbol table, printed by the backend printer and returned unmodified (no nan_to_num); the module contains imports, index/init functions, rhs", floor=8)
    assembly(ctx, "R01.j")

    ctx.rule("R01.k", "with removal of unused definitions the rhs still defines every name it reads: liveness is computed from the complete dependency relation (the rules of R12.a/b)", floor=10)
    from .c12 import liveness_rules

    liveness_rules(ctx, {"a": "R01.k", "b": "R01.k"}, declare=False)

    # ---- R01.g time aliases -------------------------------------------------------------------------------
    ctx.rule("R01.g", "`t` and `time` both denote the one time symbol, which is the formal argument t of the generated functions", floor=3)
    time_aliases(ctx, "R01.g")

    # ---- R01.h printer coverage -----------------------------------------------------------------------------
    ctx.rule("R01.h", "NumPy printer coverage: every producible class resolves to a vetted correct method or to a gotranx method with the right numpy function and operand structure", floor=40)
    kf = M.class_table("numpy", "_kf") or {}
    for mod, name in pm.P_CLASSES:
        if name in ("sign", "DiracDelta"):
            continue  # only differentiation in the schemes produces them; rhs never contains them
        r = M.resolve("numpy", mod, name)
        key = f"numpy-printer::{name}"
        if not r.is_gotranx:
            v = pm.vetted("numpy", r)
            if v is None:
                ctx.fail("R01.h", key, f"{name} is printed by the inherited {r}, which has not been vetted", "")
            else:
                ctx.check(v.get("ok", False), "R01.h", key, f"{r} (vetted)", f"numpy printer: {name} falls through to {r}: {v.get('why', 'not value-preserving')}", "")
    printers.check_no_unvetted_override(ctx, "R01.h", "numpy", skip=("sign", "DiracDelta"))
    printers.check_function_table(ctx, "R01.h", "numpy")
    printers.check_float_repr(ctx, "R01.h", "numpy")
    for cname, fn in (("And", "numpy.logical_and"), ("Or", "numpy.logical_or")):
        f = M.method("numpy", f"_print_{cname}")
        frs = " ".join(pm.fragments(f)) if f else ""
        other = ({"numpy.logical_and", "numpy.logical_or"} - {fn}).pop()
        ctx.check(fn in frs and other not in frs and "reduce" not in frs, "R01.h", f"numpy-printer::{cname}::function", f"{cname} -> {fn}", f"numpy printer: {cname} is printed with `{frs}`, expected {fn} over all operands", f.where() if f else "")
    nf = M.method("numpy", "_print_nested")
    if nf is not None:
        from .c03 import check_nested

        check_nested(ctx, "R01.h", nf)
    printers.check_equality_text(ctx, "R01.h")
    hp = M.method("numpy", "_hprint_Pow")
    if hp is None:
        ctx.fail("R01.h", "numpy-printer::Pow::sqrt", "numpy printer has no _hprint_Pow: sympy prints math.sqrt", "")
    else:
        from sa import av as _avp

        a = hp.node.args
        dflt_sqrt = any(isinstance(dv, ast.Constant) and dv.value == "numpy.sqrt" for dv in a.defaults)
        hv = util.value_of(ctx, hp)
        sq = None
        if hv[0] == "mcall" and hv[2] == "_hprint_Pow":
            sq = dict(hv[4]).get("sqrt", hv[3][2] if len(hv[3]) > 2 else None)
        if sq is None and _avp.has_unk(hv):
            ctx.undecided("R01.h", "numpy-printer::Pow::sqrt", "what _hprint_Pow returns is not understood", hp.where())
        else:
            ctx.check(dflt_sqrt and sq == ("sym", "sqrt"), "R01.h", "numpy-printer::Pow::sqrt", "sqrt -> numpy.sqrt", "numpy printer: _hprint_Pow no longer passes sqrt='numpy.sqrt' on to sympy", hp.where())
    pwm = M.method("numpy", "_print_Piecewise")
    check_where_nesting(ctx, "R01.h", pwm)
    sp_ = sm.func("codegen/base.py", "_print_Piecewise")
    util.same_as_reference(ctx, "R01.h", "codegen/base.py", "_print_Piecewise", REF_BASE_PIECEWISE, "pairs", "conditions and expressions of all pairs, aligned", "base._print_Piecewise no longer returns (printed conditions, printed expressions) of the simplified pairs in their order")


def atom_fields(sm, cls_name: str) -> list[str] | None:
    """attrs fields (declared with attr.ib, through the package bases) of a class of atoms.py"""
    out: list[str] = []
    seen = set()

    def rec(name):
        cobj = next((c for (rel, qn), c in sm.classes.items() if qn == name and rel.endswith("atoms.py")), None)
        if cobj is None or name in seen:
            return cobj is not None
        seen.add(name)
        for b in cobj.bases:
            if b.split(".")[-1] != "object" and not rec(b.split(".")[-1]):
                return False
        for st in cobj.node.body:
            if isinstance(st, ast.AnnAssign) and isinstance(st.target, ast.Name) and isinstance(st.value, ast.Call) and (dotted(st.value.func) or "").split(".")[-1] in ("ib", "field"):
                init = call_kw(st.value, "init")
                if isinstance(init, ast.Constant) and init.value is False:
                    continue
                if st.target.id not in out:
                    out.append(st.target.id)
        return True

    return out if rec(cls_name) else None


def check_resolve_expression(ctx: Ctx, rule: str):
    """For every class of assignment: the resolve_expression it inherits or defines returns an atom of the *same class*
    whose expr is its own tree resolved against the given symbols and whose other fields are its own."""
    from sa import av as _avr

    from .c03 import _branches

    sm = ctx.sm
    classes = {qn: c for (rel, qn), c in sm.classes.items() if rel.endswith("atoms.py")}
    for cls in ("Assignment", "Intermediate", "StateDerivative"):
        if cls not in classes:
            continue
        # method resolution through the package bases
        owner, m = cls, None
        chain = [cls]
        while chain and m is None:
            owner = chain.pop(0)
            cobj = classes.get(owner)
            if cobj is None:
                break
            m = cobj.methods.get("resolve_expression")
            chain.extend(b.split(".")[-1] for b in cobj.bases)
        key = f"src/gotranx/atoms.py::{cls}.resolve_expression::own-tree"
        if m is None:
            ctx.broken(f"{cls} has no resolve_expression (anchor vanished)")
        fields = atom_fields(sm, cls)
        v = util.value_of(ctx, m)
        sym_p = m.params[1] if len(m.params) > 1 else "symbols"
        E = ("mcall", ("sym", "self.value"), "resolve", (("sym", sym_p),), ())
        leaves = [(c, leaf) for c, leaf in _branches(v) if leaf[0] != "raise"]
        if fields is None or len(leaves) != 1 or _avr.has_unk(v):
            ctx.undecided(rule, key, f"what {owner}.resolve_expression returns is not understood", m.where())
            continue
        leaf = leaf0 = leaves[0][1]
        bad = None
        if leaf[0] == "call" and leaf[1] in ("attr.evolve", "attrs.evolve"):
            kw = dict(leaf[3])
            if leaf[2] != (("sym", "self"),):
                bad = f"evolves {_avr.show(leaf[2][0]) if leaf[2] else 'nothing'}, not self"
            elif kw.get("expr") != E:
                bad = f"expr is {_avr.show(kw.get('expr')) if 'expr' in kw else 'not replaced'}, not the atom's own tree resolved against the given symbols"
            elif set(kw) - {"expr"}:
                bad = f"fields {sorted(set(kw) - {'expr'})} are replaced too"
        elif leaf[0] == "call" and leaf[1] in ("type(self)", "self.__class__", cls, owner) and not leaf[2]:
            kw = dict(leaf[3])
            if leaf[1] == owner and owner != cls:
                bad = f"a {cls} is resolved into a {owner} (the class is spelled out in the inherited method)"
            else:
                for fld in fields:
                    want = E if fld == "expr" else ("sym", f"self.{fld}")
                    if kw.get(fld) != want:
                        bad = f"field `{fld}` of the new atom is {_avr.show(kw[fld]) if fld in kw else 'left at its default'}, not {_avr.show(want)}"
                        break
                extra = set(kw) - set(fields)
                if bad is None and extra:
                    bad = f"unknown fields {sorted(extra)}"
        else:
            ctx.undecided(rule, key, f"{owner}.resolve_expression builds the new atom in a way that is not recognised ({_avr.show(leaf0)[:120]})", m.where())
            continue
        ctx.check(bad is None, rule, key, "expr = own tree resolved; every other field kept; same class", f"{cls}.resolve_expression (defined in {owner}) does not build the new atom from its own resolved tree with all other fields kept: {bad}", m.where())


def check_where_nesting(ctx: Ctx, rule: str, f):
    """numpy.where(c1, e1, numpy.where(c2, e2, default)) built from the (cond, expr) pairs."""
    key = "numpy-printer::Piecewise::nesting"
    if f is None:
        ctx.fail(rule, key, "numpy printer has no _print_Piecewise of its own", "")
        return
    # the generic (non-Assignment) branch
    loops = [n for n in ast.walk(f.node) if isinstance(n, ast.For) and norm(n.iter) == "zip(conds, exprs)"]
    ok = False
    if not loops:
        # another algorithm builds the nest (the known idiom is a loop over zip(conds, exprs) appending to a list)
        frs = " ".join(pm.fragments(f))
        if "numpy.where(" not in frs:
            ctx.fail(rule, key, "numpy printer _print_Piecewise does not emit numpy.where( at all", f.where())
        else:
            ctx.undecided(rule, key, "the where-nest is not built by the known loop over zip(conds, exprs); pairing of branches and conditions is not judged", f.where())
        return
    l = loops[0]
    c, e = [x.id for x in l.target.elts]
    app = [fstring_skeleton(s_.value.args[0]) for s_ in l.body if isinstance(s_, ast.Expr) and isinstance(s_.value, ast.Call) and norm(s_.value.func).endswith(".append") and s_.value.args]
    want = ["numpy.where(", "{" + c + "}", ", ", "{" + e + "}", ", "]
    # the statements of the generic branch: the block that holds the loop (the Assignment branch has its own tail)
    block = None
    for n in ast.walk(f.node):
        for fld in ("body", "orelse", "finalbody"):
            stmts = getattr(n, fld, None)
            if isinstance(stmts, list) and any(x is l for x in stmts):
                block = stmts
    scope = ast.Module(body=list(block or f.node.body), type_ignores=[])
    # each part of the idiom: 'ok', 'bad' (the construct is there and says something else) or 'absent' (not judged)
    parts = {}
    parts["pieces"] = "ok" if app == want else ("bad" if len(app) == len(want) else "absent")
    slices = [n for n in ast.walk(scope) if isinstance(n, ast.Subscript) and isinstance(n.slice, ast.Slice) and n.slice.lower is None and isinstance(n.slice.upper, ast.UnaryOp) and isinstance(n.slice.upper.operand, ast.Constant)]
    parts["drop-last-where"] = "absent" if not slices else ("ok" if all(norm(n.slice.upper) == "-6" for n in slices) else "bad")
    closes = [n for n in ast.walk(scope) if isinstance(n, ast.BinOp) and isinstance(n.op, ast.Mult) and (const_str(n.left) == ")" or const_str(n.right) == ")")]
    parts["closing"] = "absent" if not closes else ("ok" if all(norm(n.right if const_str(n.left) == ")" else n.left) == "len(conds) - 1" for n in closes) else "bad")
    tests = [n for n in ast.walk(scope) if isinstance(n, ast.Compare) and len(n.ops) == 1 and isinstance(n.left, ast.Name) and n.left.id == c and isinstance(n.comparators[0], ast.Constant)]
    parts["default-test"] = "absent" if not tests else ("ok" if all(n.comparators[0].value == "True" and isinstance(n.ops[0], (ast.Eq, ast.NotEq)) for n in tests) else "bad")
    calls = [x for x in ast.walk(f.node) if isinstance(x, ast.Call) and (dotted(x.func) or "") == "_print_Piecewise"]
    parts["shared-helper"] = "absent" if not calls else ("ok" if [norm(a) for a in calls[0].args] == ["self", "expr"] else "bad")
    bad = sorted(k for k, v_ in parts.items() if v_ == "bad")
    absent = sorted(k for k, v_ in parts.items() if v_ == "absent")
    if bad:
        ctx.fail(rule, key, f"numpy printer _print_Piecewise: {', '.join(bad)} differ from where(c1, e1, where(c2, e2, default)) (loop appends {app}); branches would be paired with the wrong conditions or the default lost", f.where())
    elif absent:
        ctx.undecided(rule, key, f"numpy printer _print_Piecewise: the parts {absent} of the known construction are written in another way; the nesting is not judged", f.where())
    else:
        ctx.ok(rule, key, "where(c1, e1, where(c2, e2, default))", f.where())


def assembly(ctx: Ctx, rule: str):
    """R01.j: every assignment's expression is built from its own tree with the model-wide symbol table and reaches rhs unmodified."""
    sm = ctx.sm
    util.same_as_reference(ctx, rule, "ode.py", "resolve_expressions", REF_RESOLVE_EXPRESSIONS, "all-assignments", "every assignment of every component is resolved with the model-wide symbols", "resolve_expressions does not resolve every assignment of every component (or rebuilds the component from something else)")
    from sa import av as _avm

    from . import odemodel

    mo = sm.func("ode.py", "make_ode")
    mv_, _e = odemodel.construction(ctx, "make_ode")
    rc = odemodel.resolve_call(mv_)
    if rc is None and _avm.has_unk(mv_):
        ctx.undecided(rule, mo.key("symbol-table"), "make_ode is not understood", mo.where())
    else:
        okm = False
        if rc is not None:
            kw = dict(rc[3])
            passed = kw.get("symbols", rc[2][1] if len(rc[2]) > 1 else None)
            comps = kw.get("components", rc[2][0] if rc[2] else None)
            base, _extra = odemodel.setitem_chain(passed) if passed is not None else (None, {})
            okm = comps == ("sym", "components") and base is not None and odemodel.field_of(base, 2) is not None
        ctx.check(okm, rule, mo.key("symbol-table"), "symbols of all components (gather_atoms) are used to resolve", "make_ode does not resolve the expressions of the given components with the symbol table gathered from all components", mo.where())
    check_resolve_expression(ctx, rule)
    util.same_as_reference(ctx, rule, "atoms.py", "Expression.resolve", REF_EXPRESSION_RESOLVE, "", "build_expression(self.tree, symbols)", "Expression.resolve is not build_expression(self.tree, symbols=symbols)")
    from sa import av as _av


    T = tm.TemplateModel(sm)
    mt = T.func("templates/python.py", "method")
    a = mt.node.args
    dflt = dict(zip([x.arg for x in a.args][len(a.args) - len(a.defaults):], a.defaults))
    okn = "nan_to_num" not in dflt or (isinstance(dflt["nan_to_num"], ast.Constant) and dflt["nan_to_num"].value is False)
    passed = [f.qualname for f in sm.funcs_in("codegen/base.py") for c in ast.walk(f.node) if isinstance(c, ast.Call) and call_kw(c, "nan_to_num") is not None]
    ctx.check(okn and not passed, rule, mt.key("nan_to_num"), "results are returned as computed (no nan_to_num)", f"the python method template replaces NaN results by 0 (default {norm(dflt.get('nan_to_num')) if 'nan_to_num' in dflt else None}, passed by {passed})", mt.where())
    sk = util.skeleton(ctx, rule, "templates/python.py", "method", {"nan_to_num": _av.C(False)} if "nan_to_num" in mt.params else None)
    if sk is not None:
        last = [ln.strip() for ln in sk.raw.splitlines() if ln.strip()][-1]
        ctx.check(last == "return {return_name}", rule, mt.key("return"), "return <result array>", f"python method template ends with `{last}` (by default), not with `return <result array>`", mt.where())
    util.same_as_reference(ctx, rule, "codegen/base.py", "CodeGenerator._doprint", REF_DOPRINT, "", "lhs = rhs printed by the backend printer", "CodeGenerator._doprint does not return the backend printer's text of Assignment(lhs, rhs) (with the variable prefix when asked)")
    gc = sm.func("cli/gotran2py.py", "get_code")
    from .c18 import get_code_value

    gv = get_code_value(ctx, "cli/gotran2py.py", {"backend": ("enum", "Backend", "numpy", "numpy")} if "backend" in gc.params else None)
    joins = [x for x in _av.find_all(gv, "join") if "imports" in _av.show(x)[:400]]
    if not joins:
        ctx.undecided(rule, gc.key("module-parts"), "how gotran2py.get_code assembles the module is not understood", gc.where())
    else:
        seq = joins[0][2]
        names = [i[2] if i[0] == "mcall" else None for i in (seq[1] if seq[0] == "list" else ())]
        okg = bool(names) and names[0] == "imports" and {"state_index", "parameter_index", "initial_state_values", "initial_parameter_values", "rhs", "monitor_values"} <= {n_ for n_ in names if n_}
        ctx.check(okg, rule, gc.key("module-parts"), "imports first; index, init, rhs and monitor functions are all emitted", f"gotran2py.get_code assembles {names}: not imports first followed by the index, init, rhs and monitor functions", gc.where())


def time_aliases(ctx: Ctx, rule: str):
    """`t` and `time` are bound to the one time symbol when a model is made, `t` is never a missing variable, and the
    formal time argument of the generated functions is `t`."""
    sm = ctx.sm
    from sa import av as _avg

    from . import odemodel as _om

    mo = sm.func("ode.py", "make_ode")
    mv_, _e = _om.construction(ctx, "make_ode")
    rc = _om.resolve_call(mv_)
    if rc is None:
        ctx.undecided(rule, mo.key("aliases"), "make_ode is not understood", mo.where())
    else:
        passed = dict(rc[3]).get("symbols", rc[2][1] if len(rc[2]) > 1 else None)
        _base, extra = _om.setitem_chain(passed) if passed is not None else (None, {})
        tsym = ("call", "sympy.Symbol", (_avg.C("t"),), ())
        odec = [c for c in _avg.find_all(mv_, "call") if c[1].split(".")[-1] == "ODE"]
        okt = bool(odec) and dict(odec[0][3]).get("t") == tsym
        ctx.check(okt and extra.get("t") == tsym and extra.get("time") == tsym, rule, mo.key("aliases"), "symbols['t'] = symbols['time'] = Symbol('t')", f"make_ode binds the time aliases as {{{', '.join(k + ': ' + _avg.show(x) for k, x in extra.items())}}} (the model's t is {_avg.show(dict(odec[0][3]).get('t')) if odec and dict(odec[0][3]).get('t') else None})", mo.where())
    mv = sm.func("ode.py", "ODE.missing_variables")
    mvv = util.value_of(ctx, mv)
    if _avg.has_unk(mvv):
        ctx.undecided(rule, mv.key("t-is-known"), "ODE.missing_variables is not understood", mv.where())
    else:
        tests = [c for c in _avg.find_all(mvv, "cmp") if c[1] in ("!=", "not in", "==", "in") and (c[3] == _avg.C("t") or c[2] == _avg.C("t"))]
        ctx.check(bool(tests), rule, mv.key("t-is-known"), "`t` is never a missing variable", "ODE.missing_variables does not treat `t` as a known symbol", mv.where())
    pa = sm.func("codegen/python.py", "PythonCodeGenerator._rhs_arguments")
    from .c04 import func_tuple as _ftg

    kwg, vg = _ftg(ctx, pa)
    entg = {}
    if kwg and kwg.get("arguments") is not None:
        for cp_ in _avg.find_all(kwg["arguments"], "comp"):
            for it_ in cp_[3]:
                if it_[0] == "sub" and it_[1][0] == "dict":
                    entg = {k_[1]: x_ for k_, x_ in it_[1][1] if k_[0] == "c"}
    if not entg:
        ctx.undecided(rule, pa.key("formal-t"), "the formal argument table is not understood", pa.where())
    else:
        ctx.check(entg.get("t") == _avg.C("t"), rule, pa.key("formal-t"), "formal time argument is `t`", f"the formal time argument is {_avg.show(entg.get('t')) if entg.get('t') else None}", pa.where())


def check_dependencies_complete(ctx: Ctx, rule: str):
    """Expression._find_dependencies collects the name of *every* `variable` node of the expression tree: a name that is
    left out (because it looks like the time variable, say) is missing from the dependency graph - the definition can be
    printed after its use, and a cycle through it is no longer seen."""
    sm = ctx.sm
    from sa import av as _avf

    fd = sm.func("atoms.py", "Expression._find_dependencies")
    fv = util.value_of(ctx, fd)
    if _avf.has_unk(fv):
        ctx.undecided(rule, fd.key("complete"), f"what _find_dependencies collects is not understood ({_avf.find_all(fv, 'unk')[0][1]})", fd.where())
    else:
        inner = fv
        while inner[0] == "call" and inner[1] in ("frozenset", "set", "tuple", "sorted", "list") and len(inner[2]) == 1:
            inner = _avf._unwrap_seq(inner[2][0])
        inner = _avf._unwrap_seq(inner)
        okd = False
        if inner[0] == "comp":
            bv = ("bv", inner[1])
            it_ok = inner[2] == ("mcall", ("sym", "self.tree"), "iter_subtrees", (), ())
            cond_ok = inner[4] == (("cmp", "==", ("attr", bv, "data"), _avf.C("variable")),)
            first = ("sub", ("attr", bv, "children"), _avf.C(0))
            item_ok = len(inner[3]) == 1 and inner[3][0] in (_avf.mk_s((("h", first),)), first, ("attr", first, "value"))
            okd = it_ok and cond_ok and item_ok
        ctx.check(okd, rule, fd.key("complete"), "every `variable` subtree is a dependency", f"Expression._find_dependencies collects {_avf.show(fv)[:140]}, not the name of every `variable` node of the expression tree (a used name could be missing from the dependency graph and be defined after its use)", fd.where())


def conditional_builder(ctx: Ctx, rule: str):
    """The obligations of the front end that are about sympytools.Conditional, recorded under `rule` (the scheme
    builders construct their zero-division guard with it)."""
    from sa import core as _core

    sub = _core.Ctx(ctx.prop, ctx.repo, ctx.tier, ctx.sm, quiet=True)
    sub.overlay = getattr(ctx, "overlay", None)
    front_end(sub, {k: "X." + k for k in "abcde"})
    n = 0
    for o in sub.obligations:
        if o.rule == "X.e" and "::Conditional::" in o.construct:
            o.rule = rule
            ctx.obligations.append(o)
            n += 1
    if not n:
        ctx.broken("sympytools.Conditional: no obligation of the conditional builder was produced (anchor vanished)")


def tree_walk_complete(ctx: Ctx, rule: str):
    """The obligations of the front end that say every child of every tree node is built (folds over all operands,
    functions over all arguments, Conditional / ContinuousConditional over all their children, names looked up in the
    symbol table), recorded under `rule`: a reference to an undefined name is only noticed where it is looked up."""
    from sa import core as _core

    sub = _core.Ctx(ctx.prop, ctx.repo, ctx.tier, ctx.sm, quiet=True)
    sub.overlay = getattr(ctx, "overlay", None)
    front_end(sub, {k: "X." + k for k in "abcde"})
    n = 0
    for o in sub.obligations:
        if o.rule in ("X.b", "X.d") and "expressions.py::" in o.construct:
            o.rule = rule
            ctx.obligations.append(o)
            n += 1
    if not n:
        ctx.broken("expressions.py: no obligation of the tree walk was produced (anchor vanished)")


def front_end(ctx: Ctx, R: dict, declare: bool = True):
    """The front end every backend shares: operator table, fold direction, precedence ladder, function vocabulary,
    conditional builders.  R maps 'a'..'e' to the rule ids the obligations are recorded under (C02 / C03 record them
    under one rule of their own: their statements are about the values *the model text defines*)."""
    sm = ctx.sm
    G = grammar(ctx)

    def decl(rid, text, floor=0):
        if declare:
            ctx.rule(rid, text, floor=floor)

    # ---- R01.a operator table ------------------------------------------------------------------
    decl(R["a"], "operator table: for each operator literal the grammar can produce, binary_op / unary_op return the term the language defines (a-b = a+(-1)b, a/b = a*b**-1, unary minus = (-1)a) or raise", floor=9)
    add_ops, mul_ops, un_ops = G.rule_literals("_add_op"), G.rule_literals("_mul_op"), G.rule_literals("_unary_op")
    pow_ops = [l for l in G.rule_literals("power")]
    op_table(ctx, R["a"], "binary_op", BIN_REF, add_ops + mul_ops + pow_ops)
    op_table(ctx, R["a"], "unary_op", UN_REF, un_ops)
    util.same_as_reference(ctx, R["a"], "expressions.py", "relational_to_piecewise", REF_REL2PW, "indicator", "a relational used as a number is Piecewise((1, rel), (0, True))", "relational_to_piecewise no longer maps a relational operand to Piecewise((1, rel), (0, True)) and everything else to itself")

    # ---- R01.b fold direction ----------------------------------------------------------------------
    decl(R["b"], "tree folding: expression/term fold left-to-right with the accumulator as first operand; factor applies the sign to its operand; power is base ** exponent", floor=4)
    from sa import av as _avb

    from . import common as _cm

    e2, cur_v, ref_v, kt = _cm.builder_values(ctx, REF_EXPR2SYMBOLS)
    cur_cases, ref_cases = util.dispatch_cases(cur_v, kt), util.dispatch_cases(ref_v, kt)

    def case_rule(rule_, kind, key_, ok_msg, fail_msg):
        c_, r_ = cur_cases.get(kind, cur_cases[None]), ref_cases[kind]
        vd_ = util.verdict(c_, [r_])
        if vd_ == "unknown":
            ctx.undecided(rule_, e2.key(key_), f"what expr2symbols builds for `{kind}` nodes is not understood ({(_avb.find_all(c_, 'unk') or [('', '?')])[0][1]})", e2.where())
        else:
            ctx.check(vd_ == "ok", rule_, e2.key(key_), ok_msg, f"{fail_msg} (it builds {_avb.show(c_)[:200]})", e2.where())
        return c_

    for kind_ in ("expression", "term"):
        case_rule(R["b"], kind_, "fold" if kind_ == "expression" else "fold-term", "acc = binary_op(op_i, acc, operand_{i+1}) for i = 1, 3, 5, ...", f"expr2symbols: `{kind_}` children are not folded left-to-right as binary_op(children[i], accumulator, children[i+1]) (associativity or operand order of - and / would change)")
    case_rule(R["b"], "factor", "factor", "unary_op(sign, operand)", "expr2symbols: factor is not unary_op(children[0], expr2symbols(children[1]))")
    case_rule(R["b"], "power", "power", "binary_op('**', base, exponent)", "expr2symbols: power is not binary_op('**', children[0], children[1]) (base and exponent swapped?)")
    other = cur_cases[None]
    ctx.check(other == ("raise", "InvalidTreeError") or (_avb.has_unk(other) and False), R["b"], e2.key("unknown-tree"), "unknown tree kinds raise InvalidTreeError", f"expr2symbols does not raise InvalidTreeError for unknown tree kinds (it gives {_avb.show(other)[:80]})", e2.where())

    # ---- R01.c precedence ladder -------------------------------------------------------------------
    decl(R["c"], "precedence ladder of ode.lark: additive below multiplicative below unary below **, ** binds its signed right operand (right associative), parentheses restart at expression; leaf rules are not inlined", floor=14)
    for name, want in LADDER.items():
        got = G.shape(name)
        ctx.check(got == want, R["c"], f"src/gotranx/ode.lark::{name}", got, f"grammar rule `{name}` is `{got}`; the vetted precedence ladder has `{want}` (precedence / associativity / tree shape seen by build_expression changed)", "src/gotranx/ode.lark")

    TERMS = {
        "SCIENTIFIC_NUMBER": G.terms.get("SCIENTIFIC_NUMBER", {}).get("shape", ""),
        "SIGN": '("+" | "-")',
        "PI": '"pi"',
    }
    sn = TERMS["SCIENTIFIC_NUMBER"]
    number = G.terms.get("NUMBER", {}).get("shape", "")
    ok_sn = bool(number) and sn == f'{number} (("E" | "e") (("+" | "-"))? {number})?'
    ctx.check(ok_sn, R["c"], "src/gotranx/ode.lark::SCIENTIFIC_NUMBER", "NUMBER ((E|e) SIGN? NUMBER)?  (unsigned: a leading sign is an operator)", f"terminal SCIENTIFIC_NUMBER is `{sn[:120]}`; it must be an unsigned NUMBER with an optional exponent - a sign glued into the literal changes the meaning of -2**2 and x**-2**2", "src/gotranx/ode.lark")
    for tn in ("SIGN", "PI"):
        got = G.terms.get(tn, {}).get("shape")
        ctx.check(got == TERMS[tn], R["c"], f"src/gotranx/ode.lark::{tn}", f"{tn}: {got}", f"terminal {tn} is `{got}`, vetted `{TERMS[tn]}`", "src/gotranx/ode.lark")

    # ---- R01.d function vocabulary ----------------------------------------------------------------------
    decl(R["d"], "function vocabulary: every funcname / logicalfuncname of the grammar is bound to the sympy object with the documented meaning; Conditional / ContinuousConditional bind their children to cond, true, false (, sigma)", floor=26)
    sympy = importlib.import_module("sympy")
    funcs = G.literals_of("funcname")
    func_v = case_rule(R["d"], "func", "func-apply", "getattr(sp, name)(*all arguments), abs -> Abs", "expr2symbols: a function call is not built as getattr(sp, funcname)(*[every argument]) with abs mapped to Abs")
    abs_map = "'Abs' if" in _avb.show(func_v) and "== 'abs'" in _avb.show(func_v)
    for lit in funcs:
        key = f"src/gotranx/ode.lark::funcname::{lit}"
        if lit not in FUNC_MEANING:
            ctx.fail(R["d"], key, f"grammar function `{lit}` has no vetted meaning", "src/gotranx/ode.lark")
            continue
        attr, obj = FUNC_MEANING[lit]
        looked = "Abs" if (lit == "abs" and abs_map) else lit
        ok = looked == attr and getattr(sympy, looked, None) is getattr(sympy, obj)
        ctx.check(ok, R["d"], key, f"{lit} -> sympy.{obj}", f"grammar function `{lit}` is looked up as sympy.{looked}, which is not sympy.{obj}", "src/gotranx/ode.lark")
    missing = [k for k in FUNC_MEANING if k not in funcs]
    ctx.check(not missing, R["d"], "src/gotranx/ode.lark::funcname::complete", "all documented functions are in the grammar", f"documented functions missing from the grammar: {missing}", "src/gotranx/ode.lark")
    logical = G.literals_of("logicalfuncname")
    for lit in logical:
        key = f"src/gotranx/ode.lark::logicalfuncname::{lit}"
        if lit in ("Conditional", "ContinuousConditional"):
            continue
        want = LOGICAL_MEANING.get(lit)
        ok = want is not None and getattr(sympy, lit, None) is getattr(sympy, want)
        ctx.check(ok, R["d"], key, f"{lit} -> sympy.{want}", f"grammar function `{lit}` resolves to sympy.{lit}, which is not sympy.{want}", "src/gotranx/ode.lark")
    ctx.check(set(LOGICAL_MEANING) | {"Conditional", "ContinuousConditional"} == set(logical), R["d"], "src/gotranx/ode.lark::logicalfuncname::complete", "logical vocabulary as documented", f"logical function names {sorted(logical)} differ from the documented set", "src/gotranx/ode.lark")
    lk = ("sub", ("sym", f"{e2.params[0]}.children"), _avb.C(0))
    cur_l = util.dispatch_cases(cur_cases.get("logicalfunc", cur_cases[None]), lk)
    ref_l = util.dispatch_cases(ref_cases["logicalfunc"], lk)
    for nm_, key_, okm_, badm_ in (
        (None, "logical-apply", "getattr(sp, name)(*all arguments)", "expr2symbols: a logical function is not built as getattr(sp, name)(*[every argument]) (operands of And/Or could be dropped)"),
        ("Conditional", "Conditional", "Conditional(cond, true, false) <- children 1, 2, 3", "expr2symbols: Conditional does not bind children 1, 2, 3 to cond, true_value, false_value"),
        ("ContinuousConditional", "ContinuousConditional", "ContinuousConditional(rel(arg1, arg2), true, false, sigma) <- children 1..4", "expr2symbols: ContinuousConditional does not bind rel(arg1, arg2), children 2, 3, 4 to cond, true_value, false_value, sigma"),
    ):
        c_, r_ = cur_l.get(nm_, cur_l[None]), ref_l.get(nm_, ref_l[None])
        vd_ = util.verdict(c_, [r_])
        if vd_ == "unknown":
            ctx.undecided(R["d"], e2.key(key_), f"what expr2symbols builds for {nm_ or 'other logical functions'} is not understood", e2.where())
        else:
            ctx.check(vd_ == "ok", R["d"], e2.key(key_), okm_, f"{badm_} (it builds {_avb.show(c_)[:200]})", e2.where())
    pi_v = cur_cases.get("constant", cur_cases[None])
    vd_ = util.verdict(pi_v, [ref_cases["constant"]])
    if vd_ == "unknown":
        ctx.undecided(R["d"], e2.key("pi"), "what expr2symbols builds for constants is not understood", e2.where())
    else:
        ctx.check(vd_ == "ok" and G.terms["PI"]["shape"] == '"pi"', R["d"], e2.key("pi"), "`pi` (exactly) is the constant", f"the constant pi is recognised as {G.terms['PI']['shape']} / built as {_avb.show(pi_v)[:100]}: identifiers such as Pi or PI could become the constant, or pi another value", e2.where())
    case_rule(R["d"], "scientific", "number", "numbers are sympified literally", "expr2symbols: a number literal is not sp.sympify(token)")
    case_rule(R["d"], "variable", "variable", "a name is looked up in the model's symbol table", "expr2symbols: a variable is not symbols_[its name]")

    # ---- R01.e conditional builders --------------------------------------------------------------------
    decl(R["e"], "Conditional -> Piecewise((true, cond), (false, True)); ContinuousConditional -> sigmoid blend with the weights on the right sides", floor=4)
    from sa import av as _ave

    from . import util as _ue
    from .c03 import _branches as _br

    cf = sm.func("sympytools.py", "Conditional")
    cv = _ue.value_of(ctx, cf)
    if _ave.has_unk(cv):
        ctx.undecided(R["e"], cf.key("piecewise"), f"what Conditional returns is not understood ({_ave.find_all(cv, 'unk')[0][1]})", cf.where())
    else:
        pc, tv, fv = cf.params[0], cf.params[1], cf.params[2]
        condv = {("sym", pc), ("call", "sympy.sympify", (("sym", pc),), ())}
        pws = [c for c in _ave.find_all(cv, "call") if c[1] == "sympy.Piecewise"]
        okpw = False
        got = None
        if pws:
            c = pws[0]
            got = _ave.show(c)
            pairs = c[2]
            okpw = len(pairs) == 2 and pairs[0][0] == "list" and pairs[1][0] == "list" and len(pairs[0][1]) == 2 and len(pairs[1][1]) == 2 and pairs[0][1][0] == ("sym", tv) and pairs[0][1][1] in condv and pairs[1][1][0] == ("sym", fv) and pairs[1][1][1] in (("sym", "sympy.true"), _ave.C(True))
        ctx.check(okpw, R["e"], cf.key("piecewise"), "Piecewise((true_value, cond), (false_value, True))", f"sympytools.Conditional returns {got}, not Piecewise((true_value, cond), (false_value, True))", cf.where())
        leaves = _br(cv)
        direct = [(c, x) for c, x in leaves if x in (("sym", tv), ("sym", fv))]
        oks = len(direct) == 2
        for c, x in direct:
            is_bool = any("BooleanFalse" in _ave.show(k) and "BooleanTrue" in _ave.show(k) and k[0] != "not" for k in c)
            sel = [k for k in c if k in condv or (k[0] == "not" and k[1] in condv)]
            oks = oks and is_bool and len(sel) == 1 and ((sel[0][0] != "not") == (x == ("sym", tv)))
        ctx.check(oks or not direct, R["e"], cf.key("evaluated-condition"), "an already evaluated condition selects its branch", "sympytools.Conditional: the shortcut for an evaluated boolean condition is not `true_value if cond else false_value`", cf.where())
    ccf = sm.func("sympytools.py", "ContinuousConditional")
    ccv = _ue.value_of(ctx, ccf)
    H_ref = te.parse_term("1 / (1 + exp((LHS - RHS) / sigma))", funcs={"exp": lambda e, c: ("fn", "exp", (e.ev(c.args[0]),))})
    if _ave.has_unk(ccv):
        ctx.undecided(R["e"], ccf.key("weights"), f"what ContinuousConditional returns is not understood ({_ave.find_all(ccv, 'unk')[0][1]})", ccf.where())
    else:
        pc = ccf.params[0]
        repl = {f"sympy.sympify({pc})": pc, f"{pc}.args[0]": "LHS", f"{pc}.args[1]": "RHS", f"{pc}.lhs": "LHS", f"{pc}.rhs": "RHS"}
        atoms_ = None
        want_gt = te.parse_term("true_value * (1 - H) + false_value * H", env={"H": H_ref})
        want_lt = te.parse_term("true_value * H + false_value * (1 - H)", env={"H": H_ref})
        leaves = [(c, x) for c, x in _br(ccv) if x[0] not in ("raise",) and x != _ave.NONE]
        if len(leaves) == 1 and _ave.find_all(leaves[0][1], "if"):
            # the branch is taken inside the expression (a helper that returns the pair of weights): split by its condition
            split = _ue.case_split(leaves[0][1])
            if split is not None:
                leaves = [(tuple(leaves[0][0]) + tuple(c), x) for c, x in split]
        okw = len(leaves) == 2
        seen_gt = seen_lt = False
        okh = True
        for c, x in leaves:
            ctxt = " and ".join(_ave.show(k) for k in c).replace(f"sympy.sympify({pc})", pc)
            try:
                term = _ue.av_term(x, atoms=atoms_, repl=repl)
            except Exception:
                okw = False
                continue
            is_gt = f"('>' in {pc}.rel_op)" in ctxt and f"not ('>' in {pc}.rel_op)" not in ctxt
            if term == (want_gt if is_gt else want_lt):
                seen_gt, seen_lt = seen_gt or is_gt, seen_lt or not is_gt
            else:
                okw = False
                if term == (want_lt if is_gt else want_gt):
                    okh = True  # the sigmoid is right, the sides are swapped
                else:
                    okh = False
        ctx.check(okh, R["e"], ccf.key("H"), "H = 1 / (1 + exp((lhs - rhs) / sigma))", "ContinuousConditional: the blend is not built from H = 1 / (1 + exp((lhs - rhs) / sigma))", ccf.where())
        ctx.check(okw and seen_gt and seen_lt, R["e"], ccf.key("weights"), "'>' relations: true*(1-H) + false*H; otherwise true*H + false*(1-H)", "ContinuousConditional: the branch test is not `'>' in cond.rel_op` or the sigmoid weights are on the wrong sides (the blend tends to the wrong value on each side of the threshold)", ccf.where())

