"""Facts about model construction in ode.py (gather_atoms, make_ode, ODE.__init__), read from abstract values.

Shared by C01 (assembly, time aliases), C08 (duplicate detection, fresh symbol table) and C13 (missing variables).
All facts are extracted from what the functions *compute* (sa.av), so extracting a helper, switching between tuple
unpacking and attribute access on the AllAtoms tuple, or registering atoms through a local function does not matter.
Each accessor returns None when the construction is not understood (the caller records 'undecided')."""

from __future__ import annotations

from sa import av
from sa.core import Ctx

from . import util

KINDS = {"parameters": ("parameter", "value"), "states": ("state", "value"), "intermediates": ("intermediate", "expr"), "state_derivatives": ("state_derivative", "expr")}
FIELDS = ("symbol_names", "symbol_values", "symbols", "lookup")
# functions that stay opaque when make_ode / ODE.__init__ are evaluated (they are judged by rules of their own)
STOP = {"gather_atoms", "check_components", "resolve_expressions", "add_temporal_state", "ODE", "sort_assignments", "find_duplicates"}


def _construction_av(ctx: Ctx) -> av.AV:
    a = ctx.__dict__.get("_av_construction")
    if a is None:
        a = av.AV(ctx.sm, inline=lambda callee: callee.name not in STOP and not callee.name.startswith("__") and callee.rel.endswith(("ode.py",)))
        ctx.__dict__["_av_construction"] = a
    return a


def gather_fields(ctx: Ctx):
    """{field: {kind attribute: item}} for the four fields of AllAtoms, or None.  item is the single event / element
    recorded for each atom ($ = the atom): a name, ('kadd', key, value), ('kv', key, value)."""
    cached = ctx.__dict__.get("_gather_fields", 0)
    if cached != 0:
        return cached
    ga = ctx.sm.func("ode.py", "gather_atoms")
    v = util.value_of(ctx, ga)
    out = None
    if v[0] == "call" and v[1].split(".")[-1] == "AllAtoms" and not av.has_unk(v):
        args = list(v[2]) + [x for _, x in v[3]] if not v[3] else None
        if args is None:
            kw = dict(v[3])
            args = list(v[2]) + [kw.get(f) for f in FIELDS[len(v[2]):]]
        if len(args) == 4 and all(a is not None for a in args):
            out = {}
            for fname, fv in zip(FIELDS, args):
                out[fname] = {"_fresh": True, "_value": fv}
                fv = av._unwrap_seq(fv)
                if fv[0] == "list":
                    # anything in front of the per-component events makes the table not fresh
                    comps = [i for i in fv[1] if i[0] == "spread" and i[1][0] == "comp"]
                    out[fname]["_fresh"] = len(comps) == len(fv[1])
                    fv = comps[0][1] if len(comps) == 1 else fv
                if fv[0] != "comp" or fv[2] != ("sym", ga.params[0]) or fv[4]:
                    out[fname]["_understood"] = False
                    continue
                out[fname]["_understood"] = True
                d1 = fv[1]
                for it in fv[3]:
                    inner = it[1] if it[0] == "spread" else None
                    if inner is None or inner[0] != "comp" or inner[4] or len(inner[3]) != 1:
                        out[fname]["_understood"] = False
                        continue
                    src = inner[2]
                    if src[0] == "attr" and src[1] == ("bv", d1):
                        out[fname].setdefault(src[2], []).append((inner[1], inner[3][0]))
                    else:
                        out[fname]["_understood"] = False
    ctx.__dict__["_gather_fields"] = out
    return out


def construction(ctx: Ctx, qualname: str):
    """(value, final environment) of make_ode / ODE.__init__ with ode.py helpers expanded."""
    cache = ctx.__dict__.setdefault("_construction", {})
    if qualname not in cache:
        f = ctx.sm.func("ode.py", qualname)
        cache[qualname] = _construction_av(ctx).returned(f)
    return cache[qualname]


def gather_call(v):
    """the gather_atoms(...) call values inside v"""
    return [c for c in av.find_all(v, "call") if c[1].split(".")[-1] == "gather_atoms"]


def field_of(term, index: int):
    """term is gather_atoms(...)[index] (through unpacking or attribute access) -> the call, else None"""
    if term[0] == "sub" and term[2] == av.C(index) and term[1][0] == "call" and term[1][1].split(".")[-1] == "gather_atoms":
        return term[1]
    return None


def duplicate_predicate(cond):
    """cond is 'some name of SV has more than one recorded value' -> SV term; 'WRONG: why' for a recognised
    predicate over the recorded values that says something else; None when not recognised."""
    c = cond
    # any(len(v) > 1 for v in SV.values()) / any(x > 1 for x in map(len, SV.values()))
    if c[0] == "call" and c[1] == "any" and len(c[2]) == 1 and c[2][0][0] == "comp":
        cp = c[2][0]
        bv = ("bv", cp[1])
        it, item = cp[2], cp[3][0] if len(cp[3]) == 1 else None
        if item is None or cp[4]:
            return None
        if it[0] == "call" and it[1] == "map" and len(it[2]) == 2 and it[2][0] == ("sym", "len") and it[2][1][0] == "mcall" and it[2][1][2] == "values":
            sv = it[2][1][1]
            if item == ("cmp", ">", bv, av.C(1)) or item == ("cmp", ">=", bv, av.C(2)):
                return sv
            return f"WRONG: the test on the number of recorded values is {av.show(item)}"
        if it[0] == "mcall" and it[2] == "values":
            sv = it[1]
            ln = ("call", "len", (bv,), ())
            if item in (("cmp", ">", ln, av.C(1)), ("cmp", ">=", ln, av.C(2))):
                return sv
            return f"WRONG: the test on the recorded values is {av.show(item)}"
        return None
    # truthiness of {name for name, values in SV.items() if len(values) > 1}
    c = av._unwrap_seq(c)
    if c[0] == "call" and c[1] in ("set", "list", "sorted") and len(c[2]) == 1:
        c = av._unwrap_seq(c[2][0])
    if c[0] == "comp" and c[2][0] == "mcall" and c[2][2] == "items" and len(c[4]) == 1:
        sv = c[2][1]
        ln = ("call", "len", (("bv", c[1], 1),), ())
        if c[4][0] in (("cmp", ">", ln, av.C(1)), ("cmp", ">=", ln, av.C(2))):
            return sv
        return f"WRONG: the filter on the recorded values is {av.show(c[4][0])}"
    return None


def setitem_chain(term):
    """setitem(setitem(base, k1, v1), k2, v2) -> (base, {k1: v1, k2: v2}) (constant keys only)"""
    extra = {}
    while term[0] == "call" and term[1] == "setitem" and len(term[2]) == 3:
        base, k, v = term[2]
        if k[0] == "c":
            extra.setdefault(k[1], v)
        else:
            extra.setdefault(av.show(k), v)
        term = base
    return term, extra


def resolve_call(v):
    """the resolve_expressions(...) call inside the value of make_ode"""
    cs = [c for c in av.find_all(v, "call") if c[1].split(".")[-1] == "resolve_expressions"]
    return cs[0] if cs else None


def duplicate_conditions(v):
    """conditions under which the value raises DuplicateSymbolError: list of condition terms (conjunctions split)"""
    from .c03 import _branches

    out = []
    for conds, leaf in _branches(v):
        if leaf[0] == "raise" and leaf[1] == "DuplicateSymbolError":
            out.append(conds)
    return out
