"""C02 - the generated C code compiles and computes the same values (printer table, post-processing, interface shape)."""

from __future__ import annotations

import ast
import re

from sa import pm, slots, tm
from sa.core import Ctx
from sa.sm import call_kw, const_str, dotted, find_calls, fstring_skeleton, norm

from . import common, printers, util
from .c04 import counts, index_templates, slot_families


def regex_is_whole_word(pattern: str, word: str) -> bool:
    return regex_word_set(pattern) == {word}


WORDCH = set("abcdefghijklmnopqrstuvwxyzABCDEFGHIJKLMNOPQRSTUVWXYZ0123456789_")


def regex_word_set(pattern: str):
    """{words} when the pattern matches exactly those literal words as whole words (\\b or a negative look-around over
    the identifier characters on both sides of every alternative); 'UNBOUNDED' when it matches literal words but at
    least one alternative is not delimited on one side; None when the pattern is something else.  Uses re's own
    parser - nothing is matched."""
    import re._parser as sp

    try:
        items = list(sp.parse(pattern))
    except Exception:
        return None

    def is_boundary(it, side):
        op, av_ = str(it[0]), it[1]
        if op == "AT" and str(av_) == "AT_BOUNDARY":
            return True
        if op == "ASSERT_NOT" and av_[0] == (-1 if side == "l" else 1):
            inner = list(av_[1])
            if len(inner) == 1 and str(inner[0][0]) == "IN":
                chars = set()
                for k, v in inner[0][1]:
                    if str(k) == "RANGE":
                        chars |= {chr(c) for c in range(v[0], v[1] + 1)}
                    elif str(k) == "LITERAL":
                        chars.add(chr(v))
                    elif str(k) == "CATEGORY" and str(v) == "CATEGORY_WORD":
                        chars |= WORDCH
                    else:
                        return False
                return WORDCH <= chars
            if len(inner) == 1 and str(inner[0][0]) == "CATEGORY" and str(inner[0][1]) == "CATEGORY_WORD":
                return True
        return False

    def words_of(seq):
        """(words, left_bounded, right_bounded) of a sequence, or None"""
        seq = list(seq)
        lb = rb = False
        if seq and is_boundary(seq[0], "l"):
            lb, seq = True, seq[1:]
        if seq and is_boundary(seq[-1], "r"):
            rb, seq = True, seq[:-1]
        if seq and all(str(op) == "LITERAL" for op, _ in seq):
            return [("".join(chr(v) for _, v in seq), lb, rb)]
        if len(seq) == 1 and str(seq[0][0]) == "SUBPATTERN":
            inner = words_of(seq[0][1][3])
            return None if inner is None else [(w, l or lb, r or rb) for w, l, r in inner]
        if len(seq) == 1 and str(seq[0][0]) == "BRANCH":
            out = []
            for alt in seq[0][1][1]:
                inner = words_of(alt)
                if inner is None:
                    return None
                out.extend((w, l or lb, r or rb) for w, l, r in inner)
            return out
        return None

    ws = words_of(items)
    if ws is None:
        return None
    if any(not (l and r) for _, l, r in ws):
        return "UNBOUNDED"
    return {w for w, _, _ in ws}


def bool_rewrites(ctx: Ctx, b2i):
    """[(pattern text, {word: replacement} or None)] of the regular-expression substitutions bool_to_int applies,
    or None when its value is not understood."""
    from sa import av


    v = util.value_of(ctx, b2i)
    if av.has_unk(v):
        return None
    out = []
    A = util.AV(ctx)

    def by_representatives(got, m, pat_text, words):
        """the replacement function's value with the groups of the match made constant, for a match of each word
        (the groups are those of the pattern itself matched against the word - stdlib `re` on two constants)"""
        import re

        out_ = {}
        for w in words:
            mo = re.search(pat_text, w)
            if mo is None:
                return None
            mapping = {}
            for g_ in av.find_all(got, "mcall"):
                if g_[1] == m and g_[2] == "group" and all(a[0] == "c" for a in g_[3]):
                    try:
                        val = mo.group(*[a[1] for a in g_[3]])
                    except (IndexError, error_type):
                        return None
                    mapping[g_] = av.C(val) if not isinstance(val, tuple) else ("list", tuple(av.C(x) for x in val))
            for g_ in av.find_all(got, "sub"):
                if g_[1] == m and g_[2][0] == "c":
                    try:
                        mapping[g_] = av.C(mo[g_[2][1]])
                    except (IndexError, error_type):
                        return None
            t = av.renorm_deep(av.subst(got, mapping))
            # truthiness of a constant decides a conditional
            t = av.renorm_deep(_fold_truth(t))
            if t[0] != "c" or not isinstance(t[1], str):
                return None
            out_[w] = t[1]
        return out_

    import re as _re

    error_type = _re.error

    def _fold_truth(t):
        if not isinstance(t, tuple) or not t:
            return t
        if t[0] == "if" and t[1][0] == "c":
            return _fold_truth(t[2] if t[1][1] else t[3])
        if isinstance(t[0], str):
            return (t[0],) + tuple(_fold_truth(x) if isinstance(x, tuple) else x for x in t[1:])
        return tuple(_fold_truth(x) if isinstance(x, tuple) else x for x in t)

    def repl_map(rep, words, pat_text=None):
        if rep[0] == "c" and isinstance(rep[1], str):
            return {w: rep[1] for w in words}
        if rep[0] == "fn":
            m = ("sym", "match")
            got = A._apply_closure(rep[1], (m,), [], av.Frame(b2i, b2i.rel, {}, 0, 0))
            if pat_text is not None and not av.has_unk(got):
                r_ = by_representatives(got, m, pat_text, words)
                if r_ is not None:
                    return r_
            if got[0] == "sub" and got[1][0] == "dict" and all(k[0] == "c" and x[0] == "c" for k, x in got[1][1]):
                return {k[1]: x[1] for k, x in got[1][1]}
            if got[0] == "if":
                # "1" if m.group() == "true" else "0"
                c = got[1]
                if c[0] == "cmp" and c[1] == "==" and c[3][0] == "c" and got[2][0] == "c" and got[3][0] == "c":
                    return {w: (got[2][1] if w == c[3][1] else got[3][1]) for w in words}
        return None

    def rec(x):
        if not isinstance(x, tuple) or not x:
            return
        if x[0] == "call" and x[1] == "re.sub" and len(x[2]) >= 3:
            pat, rep = x[2][0], x[2][1]
            ws = regex_word_set(pat[1]) if pat[0] == "c" and isinstance(pat[1], str) else None
            out.append((av.show(pat), ws, repl_map(rep, ws, pat[1]) if isinstance(ws, set) else None))
        if x[0] == "mcall" and x[2] == "sub" and x[1][0] == "call" and x[1][1] == "re.compile" and x[1][2] and len(x[3]) >= 2:
            pat, rep = x[1][2][0], x[3][0]
            ws = regex_word_set(pat[1]) if pat[0] == "c" and isinstance(pat[1], str) else None
            out.append((av.show(pat), ws, repl_map(rep, ws, pat[1]) if isinstance(ws, set) else None))
        for y in x:
            rec(y)

    rec(v)
    return out


def check_bool_to_int(ctx: Ctx, rule: str, what: str):
    sm = ctx.sm
    b2i = sm.func("codegen/c.py", "bool_to_int")
    subs = bool_rewrites(ctx, b2i)
    key = b2i.key()
    uses_replace = any(isinstance(c, ast.Call) and isinstance(c.func, ast.Attribute) and c.func.attr == "replace" for c in ast.walk(b2i.node))
    if uses_replace:
        ctx.fail(rule, key, f"bool_to_int rewrites with str.replace: {what}", b2i.where())
        return
    if subs is None or not subs:
        ctx.undecided(rule, key, "how bool_to_int rewrites the boolean literals is not understood (no regular-expression substitution found)", b2i.where())
        return
    unbounded = [p for p, ws, _ in subs if ws == "UNBOUNDED"]
    if unbounded:
        ctx.fail(rule, key, f"bool_to_int substitutes with {unbounded}, which is not delimited by word boundaries on both sides of every alternative: {what}", b2i.where())
        return
    if any(ws is None or mp is None for _, ws, mp in subs):
        ctx.undecided(rule, key, f"a substitution of bool_to_int is not of the form whole-word literal(s) -> constant ({[p for p, ws, mp in subs if ws is None or mp is None]})", b2i.where())
        return
    table = {}
    for _, ws, mp in subs:
        for w in ws:
            table[w] = mp.get(w)
    ctx.check(table == {"true": "1", "false": "0"}, rule, key, r"\btrue\b -> 1, \bfalse\b -> 0", f"bool_to_int rewrites {table}, expected exactly true -> 1 and false -> 0 as whole words: {what}", b2i.where())


def run(ctx: Ctx):
    sm = ctx.sm
    M = printers.model(ctx)
    ctx.assume("that the translation unit compiles is NOT decided (only a compiler decides that), nor numerical agreement; the printer table is for sympy 1.14.0")

    # ---- R02.a / R02.b printer rows ------------------------------------------------------------------
    ctx.rule("R02.a", "C printer rows: every producible class resolves to a vetted value-preserving method or to a gotranx method; numeric literals that can sit under `/` or as an exponent are printed as floating literals", floor=38)
    for mod, name in pm.P_CLASSES:
        r = M.resolve("c", mod, name)
        key = f"c-printer::{name}"
        if r.is_gotranx:
            ctx.ok("R02.a", key, f"{r} (gotranx method, analysed by R02.b/c)", r.func.where())
            continue
        v = pm.vetted("c", r)
        if v is None:
            ctx.fail("R02.a", key, f"{name} is printed by the inherited {r}, which has not been vetted", "")
            continue
        if not v.get("ok", False) and v.get("finding"):
            # one finding for the mechanism, not one per Integer subclass
            if name == "Integer":
                ctx.fail("R02.a", "c-printer::Integer::real-literal", f"C printer: Integer is printed by {r}: {v['why']}", "")
            continue
        ctx.check(v.get("ok", False), "R02.a", key, f"{r} (vetted)", f"C printer: {name} falls through to the inherited {r}: {v.get('why', 'not value-preserving')}", "")
    printers.check_no_unvetted_override(ctx, "R02.a", "c")
    fl = M.method("c", "_print_Float")
    if fl is None:
        ctx.fail("R02.a", "c-printer::Float::repr", "C printer has no _print_Float of its own (sympy prints 15 significant digits)", "")
    else:
        ft = util.printed_text(ctx, fl)
        p0 = fl.params[1] if len(fl.params) > 1 else "flt"
        if ft is None:
            ctx.undecided("R02.a", "c-printer::Float::repr", "what _print_Float returns is not understood", fl.where())
        else:
            ctx.check(ft in ("{float(" + p0 + ")}", "{repr(float(" + p0 + "))}"), "R02.a", "c-printer::Float::repr", "Float -> shortest round-trip repr", f"C printer: a Float is printed as `{ft}`, not as str(float(value)) (digits would be lost or added)", fl.where())
    init = M.method("c", "__init__")
    okc = init is not None and any(isinstance(n, ast.Assign) and norm(n.targets[0]).replace('"', "'") == "self._settings['contract']" and norm(n.value) == "False" for n in ast.walk(init.node))
    ctx.check(okc, "R02.a", "c-printer::settings::contract", "contract=False (indexed assignments are plain statements)", "GotranCCodePrinter no longer sets contract=False: sympy would wrap indexed assignments in loops", init.where() if init else "")

    ctx.rule("R02.b", "math-function semantics: Mod follows the sign of the divisor (double fmod), conditionals are ternaries over every (condition, value) pair", floor=3)
    from sa import av as _av2

    from . import util as _util2

    md = M.method("c", "_print_Mod")
    if md is None:
        ctx.fail("R02.b", "c-printer::Mod::double-fmod", "the C printer has no _print_Mod of its own: sympy's fmod(a, b) has the sign of the dividend", "")
    else:
        mv = _util2.value_of(ctx, md)
        if _av2.has_unk(mv) or not _av2._is_str(mv):
            ctx.undecided("R02.b", "c-printer::Mod::double-fmod", f"what _print_Mod returns is not understood ({_av2.show(mv)[:100]})", md.where())
        else:
            flat = _av2.flatten(mv).replace(_av2.HO, "{").replace(_av2.HC, "}")
            A_, B_ = r"\{self\._print\(expr\.args\[0\]\)\}", r"\{self\._print\(expr\.args\[1\]\)\}"
            okm = re.fullmatch(r"fmod\(fmod\(" + A_ + ", " + B_ + r"\) \+ \(" + B_ + r"\), " + B_ + r"\)", flat) is not None
            ctx.check(okm, "R02.b", "c-printer::Mod::double-fmod", "fmod(fmod(a, b) + (b), b)", f"C printer: Mod is printed as {flat}; it must be fmod(fmod(a, b) + (b), b) of the printed operands so that the result has the sign of the divisor for every sign combination", md.where())
    pw = M.method("c", "_print_Piecewise")
    if pw is None:
        ctx.fail("R02.b", "c-printer::Piecewise::ternary", "the C printer has no _print_Piecewise of its own (booleans in conditions are not rewritten to 0/1)", "")
    else:
        pv = _util2.value_of(ctx, pw)
        from .c03 import _branches

        brs = _branches(pv)
        plain = [x for c, x in brs if not any("Assignment" in _av2.show(k) and k[0] != "not" for k in c)]
        okp = bool(plain) and all(_av2.show(x) == "bool_to_int(super()._print_Piecewise(expr))" for x in plain if x[0] != "raise")
        if not okp and _av2.has_unk(pv) and not plain:
            ctx.undecided("R02.b", "c-printer::Piecewise::ternary", "the structure of _print_Piecewise is not understood", pw.where())
        else:
            ctx.check(okp, "R02.b", "c-printer::Piecewise::ternary", "sympy's ternary chain, booleans rewritten to 0/1", f"C printer: a Piecewise expression is printed as {[_av2.show(x)[:80] for x in plain]}, not as bool_to_int(super()._print_Piecewise(expr))", pw.where())
        # Assignment-Piecewise branch: lhs = (c) ? e : ... ;
        helpers = [g_ for g_ in sm.funcs_in("codegen/c.py") if g_.cls == pw.cls and any(isinstance(c_, ast.Call) and isinstance(c_.func, ast.Attribute) and c_.func.attr == g_.name and norm(c_.func.value) == "self" for c_ in ast.walk(pw.node))]
        frs = "\x00".join(fr_ for g_ in [pw] + helpers for fr_ in pm.fragments(g_))
        ctx.check(") ? " in frs and " : " in frs and ";" in frs, "R02.b", "c-printer::Piecewise::assignment-form", "(cond) ? value : ... ;", "C printer: the assignment form of a Piecewise is not a ternary chain", pw.where())

    # ---- R02.c post-processing -----------------------------------------------------------------------
    ctx.rule("R02.c", "post-processing of printed code only replaces whole words; no str.replace with an identifier-like needle on emitted text", floor=2)
    check_bool_to_int(ctx, "R02.c", "identifiers that merely contain (or start / end with) `true` or `false` would be corrupted; each literal must be matched as a whole word")
    reps = []
    for short in ("codegen/c.py", "codegen/base.py", "templates/c.py", "cli/gotran2c.py"):
        for f in sm.funcs_in(short):
            for c in ast.walk(f.node):
                if isinstance(c, ast.Call) and isinstance(c.func, ast.Attribute) and c.func.attr == "replace" and c.args and const_str(c.args[0]) and re.search(r"[A-Za-z_]", const_str(c.args[0])):
                    reps.append((f, c))
    ctx.check(not reps, "R02.c", "src/gotranx/codegen::no-str-replace", "no str.replace with an identifier-like needle", f"str.replace on emitted code with identifier-like needles: {[(f.qualname, norm(c)[:50]) for f, c in reps]}", reps[0][0].where(reps[0][1]) if reps else "")

    # ---- R02.d interface shape ---------------------------------------------------------------------------
    ctx.rule("R02.d", "C templates and interface: index chains end in -1 and carry their own family name, counts are the family sizes, the method template emits unpacking before the body, includes math.h / string.h, locals are `const double`", floor=30)
    index_templates(ctx, "R02.d")
    counts(ctx, "R02.d")
    from sa import av as _av

    sk = util.skeleton(ctx, "R02.d", "templates/c.py", "method")
    if sk is not None:
        raw = sk.raw
        pos = [raw.find(x) for x in ("void {name}({args}){", "{states}", "{parameters}", "{values}")]
        ctx.check(all(p >= 0 for p in pos) and pos == sorted(pos), "R02.d", sk.func.key("order"), "signature, states, parameters, body", f"C method template: order of sections is {pos}", sk.func.where())
    gen = sm.cls("codegen/c.py", "CCodeGenerator")
    vp = gen.class_assigns().get("variable_prefix")
    ctx.check(vp is not None and const_str(vp) == "const double ", "R02.d", "src/gotranx/codegen/c.py::CCodeGenerator::variable_prefix", "locals are `const double`", f"CCodeGenerator.variable_prefix is {norm(vp) if vp is not None else None}", gen.where())
    imp = gen.methods["imports"]
    it_ = util.text_of(ctx, imp)
    if it_ is None:
        ctx.undecided("R02.d", imp.key(), "what CCodeGenerator.imports returns is not understood", imp.where())
    else:
        ctx.check("#include <math.h>" in it_ and "#include <string.h>" in it_, "R02.d", imp.key(), "math.h and string.h are included", f"CCodeGenerator.imports returns `{it_[:80]}`: math.h and string.h are no longer both included", imp.where())
    from .c04 import func_tuple

    for m in ("_rhs_arguments", "_scheme_arguments"):
        f = gen.methods[m]
        kw, v = func_tuple(ctx, f)
        args_v = kw.get("arguments") if kw else None
        if args_v is None or _av.has_unk(args_v) or args_v[0] != "list":
            ctx.undecided("R02.d", f.key("out-parameter"), f"the formal argument list is not understood ({_av.show(v)[:100]})", f.where())
            continue
        last = args_v[1][-1] if args_v[1] else None
        ctx.check(last == _av.C("double* values"), "R02.d", f.key("out-parameter"), "result is the trailing `double* values`", f"{f.qualname}: the last formal is {_av.show(last) if last else None}, not `double* values`", f.where())
    ctx.rule("R02.e", "the C functions number their slots like the index functions (slot families)", floor=17)
    slot_families(ctx, "R02.e")
    from .c13 import missing_values_discipline

    missing_values_discipline(ctx, "R02.e")
    ctx.rule("R02.h", "the front end the C backend shares with the others builds what the model text defines: operator table, fold direction, precedence ladder, function vocabulary, conditional builders (the rules of R01.a-e)", floor=40)
    from .c01 import front_end

    front_end(ctx, {k: "R02.h" for k in "abcde"}, declare=False)

    ctx.rule("R02.g", "every scheme emitted for C receives the keyword arguments its builder takes (delta, stiff_states)", floor=4)
    from .c18 import check_get_code_forwards

    for opt_ in ("delta", "stiff_states"):
        check_get_code_forwards(ctx, "R02.g", opt_)
    from . import common as _c

    _c.check_scheme_kwargs(ctx, "R02.g", "delta")
    _c.check_scheme_kwargs(ctx, "R02.g", "stiff_states")
    ctx.rule("R02.f", "the Rush-Larsen schemes emitted for C keep their zero-division guard unless the linearisation is provably non-zero (same rule as R06.b: C evaluates 0/0 to NaN)", floor=6)
    from .c05 import check_definitions_declared

    for m_ in common.scheme_models(ctx).values():
        check_definitions_declared(ctx, "R02.f", m_)
    from .c06 import check_elision

    check_elision(ctx, "R02.f")
