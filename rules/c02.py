"""C02 - the generated C code compiles and computes the same values (printer table, post-processing, interface shape)."""

from __future__ import annotations

import ast
import re

from sa import pm, slots, tm
from sa.core import Ctx
from sa.sm import call_kw, const_str, dotted, find_calls, fstring_skeleton, norm

from . import printers
from .c04 import counts, index_templates, slot_families


def regex_is_whole_word(pattern: str, word: str) -> bool:
    """pattern == \\bword\\b (re's own parser; nothing is matched)."""
    import re._parser as sp

    items = list(sp.parse(pattern))
    if len(items) != len(word) + 2:
        return False
    if str(items[0][0]) != "AT" or str(items[0][1]) != "AT_BOUNDARY" or str(items[-1][0]) != "AT" or str(items[-1][1]) != "AT_BOUNDARY":
        return False
    lits = items[1:-1]
    return all(str(op) == "LITERAL" and chr(av) == ch for (op, av), ch in zip(lits, word))


def run(ctx: Ctx):
    sm = ctx.sm
    M = printers.model(ctx)
    ctx.assume("that the translation unit compiles is NOT decided (only a compiler decides that), nor numerical agreement; the printer table is for sympy 1.14.0")

    # ---- R02.a / R02.b printer rows ------------------------------------------------------------------
    ctx.rule("R02.a", "C printer rows: every producible class resolves to a vetted value-preserving method or to a gotranx method; numeric literals that can sit under `/` or as an exponent are printed as floating literals", floor=38)
    for mod, name in pm.P_CLASSES:
        r = M.resolve("c", mod, name)
        key = f"c-printer::{name}"
        if r.is_gotranx:
            ctx.ok("R02.a", key, f"{r} (gotranx method, analysed by R02.b/c)", r.func.where())
            continue
        v = pm.vetted("c", r)
        if v is None:
            ctx.fail("R02.a", key, f"{name} is printed by the inherited {r}, which has not been vetted", "")
            continue
        if not v.get("ok", False) and v.get("finding"):
            # one finding for the mechanism, not one per Integer subclass
            if name == "Integer":
                ctx.fail("R02.a", "c-printer::Integer::real-literal", f"C printer: Integer is printed by {r}: {v['why']}", "")
            continue
        ctx.check(v.get("ok", False), "R02.a", key, f"{r} (vetted)", f"C printer: {name} falls through to the inherited {r}: {v.get('why', 'not value-preserving')}", "")
    printers.check_no_unvetted_override(ctx, "R02.a", "c")
    fl = M.method("c", "_print_Float")
    okfl = fl is not None and any(isinstance(n, ast.Return) and norm(n.value) in ("self._print(str(float(flt)))", "self._print(repr(float(flt)))") for n in ast.walk(fl.node))
    ctx.check(okfl, "R02.a", "c-printer::Float::repr", "Float -> shortest round-trip repr", "C printer: a Float is not printed as str(float(value))", fl.where() if fl else "")
    init = M.method("c", "__init__")
    okc = init is not None and any(isinstance(n, ast.Assign) and norm(n.targets[0]).replace('"', "'") == "self._settings['contract']" and norm(n.value) == "False" for n in ast.walk(init.node))
    ctx.check(okc, "R02.a", "c-printer::settings::contract", "contract=False (indexed assignments are plain statements)", "GotranCCodePrinter no longer sets contract=False: sympy would wrap indexed assignments in loops", init.where() if init else "")

    ctx.rule("R02.b", "math-function semantics: Mod follows the sign of the divisor (double fmod), conditionals are ternaries over every (condition, value) pair", floor=3)
    md = M.method("c", "_print_Mod")
    okm = False
    got = None
    if md is not None:
        rets = [fstring_skeleton(n.value) for n in ast.walk(md.node) if isinstance(n, ast.Return)]
        got = rets
        binds = [n for n in ast.walk(md.node) if isinstance(n, ast.Assign) and isinstance(n.targets[0], (ast.Tuple, ast.List))]
        if rets and binds and len(binds[0].targets[0].elts) == 2:
            a, b = [e.id for e in binds[0].targets[0].elts]
            okm = rets[0] == f"fmod(fmod({{{a}}}, {{{b}}}) + ({{{b}}}), {{{b}}})" and norm(binds[0].value) in ("[self._print(arg) for arg in expr.args]", "(self._print(arg) for arg in expr.args)")
    ctx.check(okm, "R02.b", "c-printer::Mod::double-fmod", "fmod(fmod(a, b) + (b), b)", f"C printer: Mod is printed as {got}; it must be fmod(fmod(a, b) + (b), b) so that the result has the sign of the divisor for every sign combination", md.where() if md else "")
    pw = M.method("c", "_print_Piecewise")
    okp = pw is not None and any(isinstance(n, ast.Assign) and norm(n.value) == "bool_to_int(super()._print_Piecewise(expr))" for n in ast.walk(pw.node))
    ctx.check(okp, "R02.b", "c-printer::Piecewise::ternary", "sympy's ternary chain, booleans rewritten to 0/1", "C printer: a Piecewise expression is not printed as bool_to_int(super()._print_Piecewise(expr))", pw.where() if pw else "")
    # Assignment-Piecewise branch: (c) ? e : ... ;
    frs = pm.fragments(pw) if pw else []
    ctx.check("({super()._print(arg[1])}) ? " in frs and " : " in frs and ";" in frs, "R02.b", "c-printer::Piecewise::assignment-form", "(cond) ? value : ... ;", "C printer: the assignment form of a Piecewise is not a ternary chain", pw.where() if pw else "")

    # ---- R02.c post-processing -----------------------------------------------------------------------
    ctx.rule("R02.c", "post-processing of printed code only replaces whole words; no str.replace with an identifier-like needle on emitted text", floor=2)
    b2i = sm.func("codegen/c.py", "bool_to_int")
    subs = [c for c in ast.walk(b2i.node) if isinstance(c, ast.Call) and (dotted(c.func) or "") == "re.sub"]
    table = {}
    for c in subs:
        pat, rep = const_str(c.args[0]), const_str(c.args[1])
        table[pat] = rep
    ok = len(table) == 2 and all(pat is not None for pat in table)
    okw = ok and any(regex_is_whole_word(p, "true") and r == "1" for p, r in table.items()) and any(regex_is_whole_word(p, "false") and r == "0" for p, r in table.items())
    ctx.check(okw, "R02.c", b2i.key(), r"\btrue\b -> 1, \bfalse\b -> 0", f"bool_to_int rewrites {table}: identifiers that merely contain (or start / end with) `true` or `false` would be corrupted; each literal must be matched as a whole word", b2i.where())
    reps = []
    for short in ("codegen/c.py", "codegen/base.py", "templates/c.py", "cli/gotran2c.py"):
        for f in sm.funcs_in(short):
            for c in ast.walk(f.node):
                if isinstance(c, ast.Call) and isinstance(c.func, ast.Attribute) and c.func.attr == "replace" and c.args and const_str(c.args[0]) and re.search(r"[A-Za-z_]", const_str(c.args[0])):
                    reps.append((f, c))
    ctx.check(not reps, "R02.c", "src/gotranx/codegen::no-str-replace", "no str.replace with an identifier-like needle", f"str.replace on emitted code with identifier-like needles: {[(f.qualname, norm(c)[:50]) for f, c in reps]}", reps[0][0].where(reps[0][1]) if reps else "")

    # ---- R02.d interface shape ---------------------------------------------------------------------------
    ctx.rule("R02.d", "C templates and interface: index chains end in -1 and carry their own family name, counts are the family sizes, the method template emits unpacking before the body, includes math.h / string.h, locals are `const double`", floor=30)
    index_templates(ctx, "R02.d")
    counts(ctx, "R02.d")
    from . import util
    from sa import av as _av

    sk = util.skeleton(ctx, "R02.d", "templates/c.py", "method")
    if sk is not None:
        raw = sk.raw
        pos = [raw.find(x) for x in ("void {name}({args}){", "{states}", "{parameters}", "{values}")]
        ctx.check(all(p >= 0 for p in pos) and pos == sorted(pos), "R02.d", sk.func.key("order"), "signature, states, parameters, body", f"C method template: order of sections is {pos}", sk.func.where())
    gen = sm.cls("codegen/c.py", "CCodeGenerator")
    vp = gen.class_assigns().get("variable_prefix")
    ctx.check(vp is not None and const_str(vp) == "const double ", "R02.d", "src/gotranx/codegen/c.py::CCodeGenerator::variable_prefix", "locals are `const double`", f"CCodeGenerator.variable_prefix is {norm(vp) if vp is not None else None}", gen.where())
    imp = gen.methods["imports"]
    txt = " ".join(pm.fragments(imp))
    ctx.check("#include <math.h>" in txt and "#include <string.h>" in txt, "R02.d", imp.key(), "math.h and string.h are included", "CCodeGenerator.imports no longer includes math.h and string.h", imp.where())
    from .c04 import func_tuple

    for m in ("_rhs_arguments", "_scheme_arguments"):
        f = gen.methods[m]
        kw, v = func_tuple(ctx, f)
        args_v = kw.get("arguments") if kw else None
        if args_v is None or _av.has_unk(args_v) or args_v[0] != "list":
            ctx.undecided("R02.d", f.key("out-parameter"), f"the formal argument list is not understood ({_av.show(v)[:100]})", f.where())
            continue
        last = args_v[1][-1] if args_v[1] else None
        ctx.check(last == _av.C("double* values"), "R02.d", f.key("out-parameter"), "result is the trailing `double* values`", f"{f.qualname}: the last formal is {_av.show(last) if last else None}, not `double* values`", f.where())
    ctx.rule("R02.e", "the C functions number their slots like the index functions (slot families)", floor=17)
    slot_families(ctx, "R02.e")
    ctx.rule("R02.g", "every scheme emitted for C receives the keyword arguments its builder takes (delta, stiff_states)", floor=4)
    from . import common as _c

    _c.check_scheme_kwargs(ctx, "R02.g", "delta")
    _c.check_scheme_kwargs(ctx, "R02.g", "stiff_states")
    ctx.rule("R02.f", "the Rush-Larsen schemes emitted for C keep their zero-division guard unless the linearisation is provably non-zero (same rule as R06.b: C evaluates 0/0 to NaN)", floor=6)
    from .c06 import check_elision

    check_elision(ctx, "R02.f")
