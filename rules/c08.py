"""C08 - ill-formed models are rejected, never silently repaired (structure of the guards)."""

from __future__ import annotations

import ast

from sa import te

from sa.core import Ctx
from sa.sm import call_kw, const_str, dotted, find_calls, norm, walk_no_nested

from . import common

# (module, function, exception type) -> reason.  Every `except` clause of the package must be listed here.
EXCEPT_TABLE = {
    ("atoms.py", "unit_from_string", "pint.UndefinedUnitError"): "unit annotation: unknown unit -> warn, no unit (annotations are inert)",
    ("atoms.py", "unit_from_string", "ValueError"): "unit annotation: retry with the first word",
    ("atoms.py", "unit_from_string", "Exception"): "unit annotation: any pint failure -> warn, no unit (annotations are inert)",
    ("atoms.py", "Assignment.is_stateful", "KeyError"): "dependency that is not an atom of this (sub-)model: not stateful",
    ("atoms.py", "Assignment.singularities", "KeyError"): "dependency that is not an atom of this (sub-)model: no singularity search",
    ("cli/utils.py", "read_config", "ImportError"): "optional toml reader",
    ("cli/utils.py", "read_config", "Exception"): "unreadable configuration file -> message, defaults",
    ("codegen/base.py", "CodeGenerator._format", "Exception"): "formatter failure -> unformatted code (text is unchanged)",
    ("codegen/c.py", "get_formatter", "ImportError"): "optional formatter",
    ("codegen/python.py", "get_formatter", "ImportError"): "optional formatter",
    ("expressions.py", "build_expression.expr2symbols", "KeyError"): "converted to MissingSymbolError (re-raised)",
    ("transformer.py", "get_unit_and_comment_from_assignment", "Exception"): "trailing text that pint cannot parse is a comment",
    ("transformer.py", "TreeToODE._call_userfunc", "AttributeError"): "lark's own dispatch fallback",
    ("transformer.py", "TreeToODE._call_userfunc", "lark.GrammarError"): "re-raised",
    ("transformer.py", "TreeToODE._call_userfunc_token", "AttributeError"): "lark's own dispatch fallback",
    ("transformer.py", "TreeToODE._call_userfunc_token", "lark.GrammarError"): "re-raised",
}
EXCEPT_OUT_OF_SCOPE = {"myokit.py": "Myokit import/export (C15)"}
# functions that only parse annotations / optional tooling: whichever exception types they handle, no model error can be swallowed there
ANY_TYPE_OK = {
    ("atoms.py", "unit_from_string"), ("transformer.py", "get_unit_and_comment_from_assignment"), ("cli/utils.py", "read_config"),
    ("codegen/base.py", "CodeGenerator._format"), ("codegen/c.py", "get_formatter"), ("codegen/python.py", "get_formatter"),
}


def innermost_func(sm, rel, node_line_owner):
    return None


REF_CHECK_COMPONENTS = '''
def check_components(components):
    for comp in components:
        if not comp.is_complete():
            raise exceptions.ComponentNotCompleteError(component_name=comp.name, missing_state_derivatives=[state.name for state in comp.states_without_derivatives])
'''

REF_IS_COMPLETE = '''
def is_complete(self):
    return self.states_with_derivatives == self.states
'''

REF_FIND_STATE = '''
def find_state(self, state_name):
    for state in self.states:
        if state.name == state_name:
            return state
    else:
        raise exceptions.StateNotFoundInComponent(state_name=state_name, component_name=self.name)
'''


REF_LIST_TO_PARAMETERS = """
def lark_list_to_parameters(s, cls):
    i, components = find_components(s)
    return tuple([tree2parameter(p, components=components, cls=cls) for p in s[i:] if isinstance(p, lark.Tree)])
"""


def run(ctx: Ctx):
    sm = ctx.sm
    ctx.assume("that every concrete ill-formed text raises is NOT decided (needs the loader executed); what is decided is that the guards exist, see every definition and cannot be bypassed")

    # ---- R08.a duplicate detection ---------------------------------------------------------
    ctx.rule("R08.a", "duplicate detection sees every definition: the transformer rejects a redefinition before atoms are merged in sets; gather_atoms records every kind, tagged; the predicate is 'more than one distinct value'", floor=10)
    check_redefinition_guard(ctx, "R08.a")
    check_handlers_keep_every_entry(ctx, "R08.a")
    check_all_items_registered(ctx, "R08.a")
    from . import util as _u8a

    _u8a.same_as_reference(
        ctx,
        "R08.a",
        "transformer.py",
        "lark_list_to_parameters",
        REF_LIST_TO_PARAMETERS,
        "one-atom-per-entry",
        "every entry of a states(...) / parameters(...) block becomes an atom (two entries with one name are both handed on, to be rejected)",
        "lark_list_to_parameters does not hand every entry of the block on as an atom of its own: entries are merged or dropped before the redefinition check can see them (a name listed twice in one block silently keeps one of its values)",
    )

    from sa import av as _av

    from . import odemodel

    ga = sm.func("ode.py", "gather_atoms")
    gf = odemodel.gather_fields(ctx)
    if gf is None or not gf["symbol_values"].get("_understood"):
        ctx.undecided("R08.a", ga.key("record"), "how gather_atoms records the definitions is not understood", ga.where())
    else:
        sv = gf["symbol_values"]
        missing = []
        for attr, (kind, field) in odemodel.KINDS.items():
            recs = sv.get(attr, [])
            if not recs:
                missing.append(attr)
                continue
            d, item = recs[0]
            bv = ("bv", d)
            want = ("kadd", ("attr", bv, "name"), ("list", (_av.C(kind), ("attr", bv, field))))
            ctx.check(len(recs) == 1 and item == want, "R08.a", ga.key(f"record::{attr}"), f"symbol_values[name].add(('{kind}', {field}))", f"gather_atoms records `{_av.show(item)}` for the atoms of component.{attr}, not name +: ('{kind}', atom.{field}): conflicting definitions of that kind (or of different kinds with equal values) are not detected", ga.where())
        ctx.check(not missing, "R08.a", ga.key("all-kinds"), "all four atom kinds are recorded", f"gather_atoms records nothing for {missing}", ga.where())
    for qn in ("make_ode", "ODE.__init__"):
        f = sm.func("ode.py", qn)
        v, env = odemodel.construction(ctx, qn)
        dcs = odemodel.duplicate_conditions(v)
        if not dcs and _av.has_unk(v):
            ctx.undecided("R08.a", f.key("predicate"), f"{qn} is not understood ({_av.find_all(v, 'unk')[0][1]})", f.where())
            continue
        if not dcs:
            ctx.fail("R08.a", f.key("predicate"), f"{qn} never raises DuplicateSymbolError: conflicting definitions in different components are accepted", f.where())
            continue
        verdicts = []
        for conds in dcs:
            verdicts.append([odemodel.duplicate_predicate(c) for c in conds])
        flat = [g for got in verdicts for g in got]
        wrong = [g for g in flat if isinstance(g, str)]
        svs = [g for g in flat if isinstance(g, tuple)]
        if wrong:
            ctx.fail("R08.a", f.key("predicate"), f"{qn}: the duplicate predicate is not 'some name has more than one distinct recorded value' ({wrong[0][7:]})", f.where())
            continue
        if not svs:
            ctx.undecided("R08.a", f.key("predicate"), f"{qn}: the condition for DuplicateSymbolError is not recognised ({[_av.show(c)[:80] for c in dcs[0]]})", f.where())
            continue
        extra = [c for conds, got in zip(dcs, verdicts) for c, g in zip(conds, got) if g is None]
        ctx.check(not extra, "R08.a", f.key("predicate"), "raise if any name has more than one recorded value", f"{qn}: DuplicateSymbolError is raised only under the additional condition {[_av.show(c)[:80] for c in extra]}", f.where())
        src = odemodel.field_of(svs[0], 1)
        ok2 = src is not None and dict(src[3]).get("components", src[2][0] if src[2] else None) == ("sym", "components")
        ctx.check(ok2, "R08.a", f.key("uses-gather_atoms"), "symbol_values comes from gather_atoms over all components", f"{qn} checks `{_av.show(svs[0])[:80]}`, which is not the symbol_values of gather_atoms(components)", f.where())

    # ---- R08.b pairing guards -------------------------------------------------------------------
    ctx.rule("R08.b", "state/derivative pairing: check_components runs first in make_ode and ODE.__init__ for every component; d<x>_dt always goes through find_state, which raises on no match", floor=8)
    check_component_tags_verbatim(ctx, "R08.b")
    for qn in ("make_ode", "ODE.__init__"):
        f = sm.func("ode.py", qn)
        first = [s for s in f.node.body if not (isinstance(s, ast.Expr) and isinstance(s.value, ast.Constant))][0]
        ok = isinstance(first, ast.Expr) and isinstance(first.value, ast.Call) and (dotted(first.value.func) or "") == "check_components"
        ctx.check(ok, "R08.b", f.key("check_components-first"), "check_components(components) is the first statement", f"{qn} does not start with check_components(components)", f.where())
    from . import util as _u8b

    _u8b.same_as_reference(ctx, "R08.b", "ode.py", "check_components", REF_CHECK_COMPONENTS, "every-component", "every component must be complete, else ComponentNotCompleteError", "check_components does not raise for *every* component that is not complete (some components are skipped or the test changed)")
    _u8b.same_as_reference(ctx, "R08.b", "ode_component.py", "BaseComponent.is_complete", REF_IS_COMPLETE, "definition", "complete iff states with derivatives == states", "BaseComponent.is_complete is not `states_with_derivatives == states`")
    from sa import av as _avb

    from . import util as _ub

    swd = sm.func("ode_component.py", "BaseComponent.states_with_derivatives")
    sv_ = _ub.value_of(ctx, swd)
    if _avb.has_unk(sv_):
        ctx.undecided("R08.b", swd.key("definition"), "what states_with_derivatives collects is not understood", swd.where())
    else:
        inner = sv_
        while inner[0] == "call" and inner[1] in ("frozenset", "set") and len(inner[2]) == 1:
            inner = _avb._unwrap_seq(inner[2][0])
        ok = inner[0] == "comp" and inner[2] == ("sym", "self.state_derivatives") and not inner[4] and inner[3] == (("attr", ("bv", inner[1]), "state"),)
        ctx.check(ok, "R08.b", swd.key("definition"), "the states of all state derivatives", f"states_with_derivatives collects {_avb.show(sv_)[:100]}, not the state of every state derivative", swd.where())
    ha = sm.func("ode_component.py", "Component._handle_assignments")
    _hv, henv = _ub.AV(ctx).returned(ha)
    stores = {}
    for fn_, node_, val_ in _ub.AV(ctx).call_log:
        if fn_ is ha and val_[0] == "call" and val_[1] == "object.__setattr__" and len(val_[2]) == 3 and val_[2][1][0] == "c":
            stores[val_[2][1][1]] = val_[2][2]

    def flat_items(v):
        """[(value, [conditions])] of the per-assignment items of a set built in the loop over self.assignments"""
        v = _avb._unwrap_seq(v)
        while v[0] == "call" and v[1] in ("frozenset", "set") and len(v[2]) == 1:
            v = _avb._unwrap_seq(v[2][0])
        if v[0] != "comp" or v[2] != ("sym", "self.assignments"):
            return None, None
        out = []

        def split(c):
            return list(c[2]) if c[0] == "bool" and c[1] == "and" else [c]

        for it in v[3]:
            conds = [k for c in v[4] for k in split(c)]
            while it[0] == "when":
                conds.extend(split(it[1]))
                it = it[2]
            out.append((it, conds))
        return ("bv", v[1]), out

    sdv, imv = stores.get("state_derivatives"), stores.get("intermediates")
    key = ha.key("derivative-branch")
    if sdv is None or imv is None or _avb.has_unk(sdv) or _avb.has_unk(imv):
        ctx.undecided("R08.b", key, "how _handle_assignments classifies the assignments is not understood", ha.where())
    else:
        bv1, sd_items = flat_items(sdv)
        bv2, im_items = flat_items(imv)
        if sd_items is None or im_items is None:
            ctx.undecided("R08.b", key, "the sets stored by _handle_assignments are not built per assignment", ha.where())
        else:
            def is_match(c, bv):
                return c[0] == "mcall" and c[2] in ("match", "fullmatch") and c[3] == (("attr", bv, "name"),) and c[1][0] == "call" and c[1][1] == "re.compile"

            conv = [(x, c) for x, c in sd_items if x[0] == "mcall" and x[2] == "to_state_derivative"]
            raw_im = [(x, c) for x, c in im_items if x[0] == "mcall" and x[2] == "to_intermediate"]
            ok = bool(conv) and bool(raw_im)
            why = "no to_state_derivative / to_intermediate conversion found"
            if not conv and not raw_im:
                ctx.undecided("R08.b", key, "the conversion of plain assignments is not done item by item in the loop (the classification is delegated)", ha.where())
                conv = raw_im = None
            for x, c in conv or []:
                ms = [k for k in c if is_match(k, bv1)]
                arg = x[3][0] if x[3] else None
                fs_ok = arg is not None and arg[0] == "mcall" and arg[1] == ("sym", "self") and arg[2] == "find_state" and ms and (dict(arg[4]).get("state_name") or (arg[3][0] if arg[3] else None)) == ("mcall", ms[0], "group", (_avb.C("state"),), ())
                if not fs_ok:
                    ok, why = False, f"a derivative is built as {_avb.show(x)[:120]}, not through self.find_state(<state group of the d<x>_dt match>)"
            for x, c in raw_im or []:
                nm = [k for k in c if k[0] == "not" and is_match(k[1], bv2)]
                if not nm:
                    ok, why = False, f"an assignment becomes an intermediate under {[_avb.show(k)[:60] for k in c]} without the test that its name is not d<x>_dt"
            if conv is not None:
                ctx.check(ok, "R08.b", key, "every assignment named d<x>_dt is resolved with find_state", f"_handle_assignments: {why}; an assignment named d<x>_dt can bypass find_state and silently become an intermediate", ha.where())
    rx = None
    for st in sm.module("ode_component.py").body:
        if isinstance(st, ast.Assign) and norm(st.targets[0]) == "STATE_DERIV_EXPR" and isinstance(st.value, ast.Call) and st.value.args:
            rx = const_str(st.value.args[0])
    ctx.check(rx == r"^d(?P<state>\w+)_dt$", "R08.b", "src/gotranx/ode_component.py::STATE_DERIV_EXPR", "^d(?P<state>\\w+)_dt$", f"STATE_DERIV_EXPR is {rx!r}", "src/gotranx/ode_component.py")
    _u8b.same_as_reference(ctx, "R08.b", "ode_component.py", "BaseComponent.find_state", REF_FIND_STATE, "raises", "find_state returns the state with that name and raises StateNotFoundInComponent when no state matches", "find_state does not return the state of that name / raise StateNotFoundInComponent exactly when no state of the component has the requested name")

    # ---- R08.c error discipline ---------------------------------------------------------------------
    ctx.rule("R08.c", "every except clause of the package is in the frozen table (one reason each); undefined symbols become MissingSymbolError; nothing catches CycleError / GotranxError on the load->generate path", floor=16)
    seen = set()
    pkg_names = {g.name for g in sm.all_funcs()} | {c_.name for mod_ in sm.modules.values() for c_ in ast.walk(mod_) if isinstance(c_, ast.ClassDef)}

    def can_see_model_errors(body) -> bool:
        """A try body that neither calls package code, nor raises, nor sorts a graph, nor looks anything up can only see
        errors of the library it calls - it cannot swallow an error about an ill-formed model."""
        for s_ in body:
            for x in ast.walk(s_):
                if isinstance(x, ast.Raise) or (isinstance(x, ast.Subscript) and isinstance(x.ctx, ast.Load)):
                    return True
                if isinstance(x, ast.Call):
                    tail = (dotted(x.func) or norm(x.func)).split(".")[-1]
                    if tail in pkg_names or tail in ("static_order", "prepare", "get_ready", "done", "next", "pop", "remove", "index"):
                        return True
        return False

    for f in sm.all_funcs():
        short = f.rel.replace("src/gotranx/", "")
        if short in EXCEPT_OUT_OF_SCOPE:
            continue
        for n in walk_no_nested(f.node):
            if isinstance(n, ast.Try):
                if not can_see_model_errors(n.body):
                    ctx.ok("R08.c", f"{f.rel}::{f.qualname}::try-around-library-call::{norm(n.body[0])[:40]}", "the try body calls no package code, raises nothing and looks nothing up", f.where(n))
                    continue
                for h in n.handlers:
                    types = h.type.elts if isinstance(h.type, ast.Tuple) else [h.type]
                    for t in types:
                        tname = norm(t) if t is not None else "*"
                        tname = tname.replace("units.pint.", "pint.")
                        k = (short, f.qualname, tname)
                        key = f"{f.rel}::{f.qualname}::except {tname}"
                        if k in seen:
                            continue
                        seen.add(k)
                        try:
                            reraises = all(p_.exit == "raise" for p_ in te.enumerate_paths(h.body))
                        except Exception:
                            reraises = False
                        ctx.check(
                            k in EXCEPT_TABLE or (short, f.qualname) in ANY_TYPE_OK or reraises,
                            "R08.c",
                            key,
                            EXCEPT_TABLE.get(k, ""),
                            f"{f.qualname} has an `except {tname}` clause that is not in the vetted table: an error raised for an ill-formed model could be swallowed here instead of surfacing",
                            f.where(h),
                        )
    for rel, mod in sm.modules.items():
        for st in mod.body:
            if isinstance(st, ast.Try):
                ctx.fail("R08.c", f"{rel}::<module>::try", "module-level try/except is not in the vetted table", f"{rel}:{st.lineno}")
    check_undefined_symbol(ctx, "R08.c")
    from .c01 import check_dependencies_complete

    check_dependencies_complete(ctx, "R08.c")  # a cycle is only seen through the dependencies that are recorded
    # the checks run on every load: nothing is remembered between models in module-level state
    from .c09 import global_mutations

    global_mutations(ctx, "R08.c", only_rel="ode.py")
    global_mutations(ctx, "R08.c", only_rel="transformer.py")
    from . import util as _u8c
    from .c01 import REF_SORT_ASSIGNMENTS

    _u8c.same_as_reference(
        ctx,
        "R08.c",
        "ode.py",
        "sort_assignments",
        REF_SORT_ASSIGNMENTS,
        "every-dependency-is-an-edge",
        "every dependency of every assignment - its own name included - is an edge of the graph handed to graphlib",
        "sort_assignments does not hand every dependency of every assignment to the topological sorter (a dependency that is dropped - e.g. the assignment's own name - is a cycle graphlib no longer sees: `u = a*x + b*u` would be accepted)",
    )
    sa = sm.func("ode.py", "sort_assignments")
    ctx.check(not any(isinstance(n, ast.Try) for n in ast.walk(sa.node)) and any(isinstance(c, ast.Call) and norm(c.func).endswith("static_order") for c in ast.walk(sa.node)), "R08.c", sa.key("cycle"), "graphlib.CycleError propagates from static_order()", "sort_assignments catches exceptions around the topological sort (cyclic definitions could be accepted)", sa.where())

    ctx.rule("R08.e", "an undefined name is noticed wherever it stands: the expression builder visits every child of every node (all operands, all arguments, all three / four children of the conditionals) and looks every name up in the symbol table", floor=8)
    from .c01 import tree_walk_complete

    tree_walk_complete(ctx, "R08.e")

    ctx.rule("R08.d", "the symbol table used to resolve expressions is built fresh for each model from its own atoms (plus the time aliases); nothing defined by an earlier model can satisfy a reference", floor=3)
    mo = sm.func("ode.py", "make_ode")
    mv_, _env = odemodel.construction(ctx, "make_ode")
    rc = odemodel.resolve_call(mv_)
    if rc is None:
        if _av.has_unk(mv_):
            ctx.undecided("R08.d", mo.key("resolve-with-own-symbols"), "make_ode is not understood", mo.where())
        else:
            ctx.fail("R08.d", mo.key("resolve-with-own-symbols"), "make_ode does not resolve the expressions (no resolve_expressions call)", mo.where())
    else:
        passed = dict(rc[3]).get("symbols", rc[2][1] if len(rc[2]) > 1 else None)
        base, extra = odemodel.setitem_chain(passed) if passed is not None else (None, {})
        src = odemodel.field_of(base, 2) if base is not None else None
        ctx.check(src is not None and dict(src[3]).get("components", src[2][0] if src[2] else None) == ("sym", "components"), "R08.d", mo.key("resolve-with-own-symbols"), "expressions are resolved with the dict returned by gather_atoms for this model", f"make_ode resolves expressions with `{_av.show(base)[:80] if base is not None else None}`, not with the symbol dict gathered from this model's atoms: names can leak in from elsewhere", mo.where())
        ctx.check(set(extra) <= {"t", "time"}, "R08.d", mo.key("no-shared-table"), "only the time aliases are added to the table", f"make_ode adds {sorted(set(extra) - {'t', 'time'})} to the symbol table", mo.where())
    gaf = sm.func("ode.py", "gather_atoms")
    if gf is None or not gf["symbols"].get("_understood"):
        ctx.undecided("R08.d", gaf.key("fresh-dict"), "how gather_atoms builds the symbol dict is not understood", gaf.where())
    else:
        ctx.check(gf["symbols"]["_fresh"], "R08.d", gaf.key("fresh-dict"), "gather_atoms starts from an empty dict", f"gather_atoms does not start the symbol dict empty ({_av.show(gf['symbols']['_value'])[:80]}): names of earlier models stay defined", gaf.where())


def check_undefined_symbol(ctx: Ctx, rule: str):
    """expr2symbols, `variable` nodes: the value is a plain subscript lookup in the symbol table, guarded by a handler
    that turns the KeyError of an undefined name into MissingSymbolError (read from what the function computes, so the
    lookup may live in a helper)."""
    from sa import av as _av

    from . import util

    from . import common as _cm

    e2 = _cm.tree_builder(ctx)
    A = util.AV(ctx)
    v, _env = A.returned(e2)
    cases = util.dispatch_cases(v, ("sym", f"{_cm.tree_param(e2)}.data"))
    cv = cases.get("variable")
    key = e2.key("undefined-symbol")
    if cv is None or _av.has_unk(cv):
        ctx.undecided(rule, key, "what expr2symbols computes for `variable` nodes is not understood", e2.where())
        return
    defaults = [m for m in _av.find_all(cv, "mcall") if m[2] in ("get", "setdefault", "pop")]
    if defaults:
        ctx.fail(rule, key, f"build_expression: an undefined symbol is not turned into MissingSymbolError: the name is looked up with a default ({_av.show(defaults[0])[:100]})", e2.where())
        return
    lenient = [g for g in A.get_log if _av.find_all(cv, "sub") and any(x[1] == g[1] and x[2] == g[2] for x in _av.find_all(cv, "sub"))]
    if lenient:
        ctx.fail(rule, key, f"build_expression: an undefined symbol is not turned into MissingSymbolError: the name is looked up with {_av.show(lenient[0][1])}.get(...), which gives None for an undefined name instead of failing", e2.where())
        return
    from .c03 import _branches as _br8

    leaves = [leaf for _c, leaf in _br8(cv)]
    fabricated = [x for x in leaves if x[0] == "call" and x[1].split(".")[-1] in ("Symbol", "Dummy", "symbols", "Function", "Wild")]
    if fabricated:
        ctx.fail(rule, key, f"build_expression: a name is turned into a fresh symbol ({_av.show(fabricated[0])[:80]}) on some path instead of being looked up in the symbol table: an undefined name is accepted silently and the generated code reads an undefined variable", e2.where())
        return
    if cv[0] != "sub":
        ctx.undecided(rule, key, f"`variable` nodes are not resolved by a subscript lookup ({_av.show(cv)[:100]}); the error for undefined names is not judged", e2.where())
        return
    guards = [g for g in A.handler_log if g[1].split(".")[-1] in ("KeyError", "LookupError") and g[3] == cv]
    ok = any(g[2][0] == "raise" and len(g[2]) > 1 and str(g[2][1]).split(".")[-1] == "MissingSymbolError" for g in guards)
    ctx.check(ok, rule, key, "symbols_[name] -> KeyError -> MissingSymbolError", "build_expression: an undefined symbol is not turned into MissingSymbolError (" + ("the KeyError handler raises " + _av.show(guards[0][2]) if guards else "no handler turns the KeyError of the lookup into it") + ")", e2.where())


def check_redefinition_guard(ctx: Ctx, rule: str):
    """TreeToODE.ode: one registry of first definitions, a second definition of a name raises (by identity, so atoms
    that merely compare equal are not merged), and the check precedes the insertion into the component sets."""
    sm = ctx.sm
    from . import util as _u8

    tf = _u8.nf(ctx, "transformer.py", "TreeToODE.ode")  # private helpers expanded
    loops = [n for n in tf.node.body if isinstance(n, ast.For)]
    ctx.require(loops, "TreeToODE.ode: loop over the parsed lines not found")
    outer = loops[0]
    # the registry of first definitions lives outside the loop over lines
    regs = [n for n in tf.node.body if isinstance(n, (ast.Assign, ast.AnnAssign)) and isinstance(n.value, (ast.Dict, ast.Call)) and norm(n.value) in ("{}", "dict()")]
    reg_names = {norm(n.targets[0] if isinstance(n, ast.Assign) else n.target) for n in regs if n.lineno < outer.lineno}
    sd = [c for c in ast.walk(outer) if isinstance(c, ast.Call) and isinstance(c.func, ast.Attribute) and c.func.attr == "setdefault" and len(c.args) == 2 and norm(c.args[0]).endswith(".name")]
    # the same check written with get + store: `if reg.get(a.name, a) is not a: raise ... else: reg[a.name] = a`
    gets = [c for c in ast.walk(outer) if isinstance(c, ast.Call) and isinstance(c.func, ast.Attribute) and c.func.attr == "get" and len(c.args) == 2 and norm(c.args[0]).endswith(".name") and norm(c.args[0]) == norm(c.args[1]) + ".name" and norm(c.func.value) in reg_names]
    # a registry keyed by more than the name (the name together with the component, the kind, the value ...) only sees a
    # redefinition that repeats those too: the same name defined under another tag is then accepted twice
    for c in ast.walk(outer):
        if isinstance(c, ast.Call) and isinstance(c.func, ast.Attribute) and c.func.attr in ("setdefault", "get") and c.args and norm(c.func.value) in reg_names:
            k0 = c.args[0]
            names_in = [x for x in ast.walk(k0) if isinstance(x, ast.Attribute) and x.attr == "name"]
            if names_in and not norm(k0).endswith(".name") and isinstance(k0, (ast.Tuple, ast.BinOp, ast.JoinedStr, ast.Call)):
                others = sorted({norm(x) for x in ast.walk(k0) if isinstance(x, ast.Attribute) and x.attr != "name"})
                ctx.fail(rule, tf.key("registry-key"), f"TreeToODE.ode keys the registry of first definitions by `{norm(k0)[:60]}`, not by the name alone: a second definition of the name that differs in {others or 'the rest of the key'} is not seen as a redefinition and both atoms are kept", tf.where(c))
                return
    if not sd and gets:
        g0 = gets[0]
        reg_, atom_ = norm(g0.func.value), norm(g0.args[1])
        stores_ = [n for n in ast.walk(outer) if isinstance(n, ast.Assign) and len(n.targets) == 1 and norm(n.targets[0]) == f"{reg_}[{atom_}.name]" and norm(n.value) == atom_]
        raises_ = [n for n in ast.walk(outer) if isinstance(n, ast.Raise) and "DuplicateSymbolError" in norm(n)]
        chain_ = (common.cond_chain(tf.node, raises_[0]) or []) if raises_ else []
        conds_ = [c.replace(" ", "") for c, pol in chain_ if pol and not c.startswith("loop")]
        conds_all_ = [c for c, pol in chain_ if not c.startswith("loop")]
        gtxt = norm(g0).replace(" ", "")
        guard_ok = any(c in (f"{gtxt}isnot{atom_}", f"{atom_}isnot{gtxt}") for c in conds_) and len(conds_all_) == 1
        inner_regs_ = [n for n in ast.walk(outer) if isinstance(n, (ast.Assign, ast.AnnAssign)) and n.value is not None and norm(n.value) in ("{}", "dict()")]
        ctx.check(not inner_regs_, rule, tf.key("registry-scope"), "one registry of first definitions for the whole text", "TreeToODE.ode: the registry of first definitions is re-created inside the loop over the lines (a redefinition in another block would not be seen)", tf.where(outer))
        ctx.check(guard_ok and bool(stores_), rule, tf.key("redefinition-raises"), "any second definition of a name raises DuplicateSymbolError", f"TreeToODE.ode does not raise DuplicateSymbolError for every second definition of a name (`{reg_}.get({atom_}.name, {atom_}) is not {atom_}`, first definitions stored): two definitions that compare equal are merged silently in the component sets, or duplicates survive", tf.where(raises_[0]) if raises_ else tf.where())
        adds_ = [c for c in ast.walk(outer) if isinstance(c, ast.Call) and isinstance(c.func, ast.Attribute) and c.func.attr == "add"]
        ctx.check(bool(adds_) and bool(raises_) and raises_[0].lineno < adds_[0].lineno, rule, tf.key("check-before-merge"), "the check runs for every atom before it is added to a set", "TreeToODE.ode: the redefinition check does not precede the insertion into the component sets", tf.where())
        return
    if not sd and not [n for n in ast.walk(outer) if isinstance(n, ast.Raise) and "DuplicateSymbolError" in norm(n)]:
        ctx.fail(rule, tf.key("redefinition-raises"), "TreeToODE.ode never raises DuplicateSymbolError while it registers the atoms: a second definition of a name is merged silently in the component sets, or survives", tf.where())
        return
    if not sd:
        ctx.undecided(rule, tf.key("redefinition-raises"), "TreeToODE.ode: the registry of first definitions is not kept with setdefault / get-and-store; how a second definition is detected is not understood", tf.where())
        return
    ok_reg = bool(sd) and norm(sd[0].func.value) in reg_names
    inner_regs = [n for n in ast.walk(outer) if isinstance(n, (ast.Assign, ast.AnnAssign)) and n.value is not None and norm(n.value) in ("{}", "dict()")]
    ctx.check(ok_reg and not inner_regs, rule, tf.key("registry-scope"), "one registry of first definitions for the whole text", "TreeToODE.ode: the registry of first definitions is not a single dict created before the loop over the lines (a redefinition in another block would not be seen)", tf.where(outer))
    raises = [n for n in ast.walk(outer) if isinstance(n, ast.Raise) and "DuplicateSymbolError" in norm(n)]
    ok_raise = False
    if sd and raises:
        atomvar = norm(sd[0].args[1])
        prev = [n for n in ast.walk(outer) if isinstance(n, ast.Assign) and n.value is sd[0]]
        pv = norm(prev[0].targets[0]) if prev else None
        chain = common.cond_chain(tf.node, raises[0]) or []
        conds = [c for c, pol in chain if pol and not c.startswith("loop")]
        ok_raise = pv is not None and any(c.replace(" ", "") in (f"{pv}isnot{atomvar}", f"{atomvar}isnot{pv}") for c in conds) and norm(sd[0].args[0]) == f"{atomvar}.name"
        # ... and no weaker guard in between (isinstance / early continue)
        conds_all = [c for c, pol in chain if not c.startswith("loop")]
        ok_raise = ok_raise and len(conds_all) == 1
    ctx.check(ok_raise, rule, tf.key("redefinition-raises"), "any second definition of a name raises DuplicateSymbolError", "TreeToODE.ode does not raise DuplicateSymbolError for every second definition of a name (`previous is not atom`): two definitions that compare equal are merged silently in the component sets, or duplicates survive", tf.where(raises[0]) if raises else tf.where())
    adds = [c for c in ast.walk(outer) if isinstance(c, ast.Call) and isinstance(c.func, ast.Attribute) and c.func.attr == "add"]
    ok_order = bool(adds) and bool(raises) and raises[0].lineno < adds[0].lineno
    skips = [n for n in ast.walk(outer) if isinstance(n, ast.Continue)]
    import re as _re

    def _non_atom_guard(c: str) -> bool:
        return _re.fullmatch(r"isinstance\(\w+, (atoms\.Comment|str)\)", c) is not None

    ok_skip = all(any(_non_atom_guard(c) and pol for c, pol in (common.cond_chain(tf.node, s) or [])) for s in skips)
    ctx.check(ok_order and ok_skip, rule, tf.key("check-before-merge"), "the check runs for every atom before it is added to a set", "TreeToODE.ode: the redefinition check does not precede the insertion into the component sets for every atom", tf.where())


def check_handlers_keep_every_entry(ctx: Ctx, rule: str):
    """What the transformer's block handlers (expression blocks, states, parameters) hand on is every entry they were given:
    a value wrapped in dict.fromkeys / set / frozenset merges entries that *compare equal* - and equality of assignments
    ignores the expression tree - before the duplicate check in TreeToODE.ode ever sees them."""
    from sa import av as _av

    from . import util as _u
    from .c11 import grammar

    G = grammar(ctx)
    names = list(G.handlers(G.block_rule_name())) + ["states", "parameters"]
    for h in names:
        f = ctx.sm.func("transformer.py", f"TreeToODE.{h}", required=False)
        if f is None:
            continue
        v = _u.value_of(ctx, f)
        key = f.key("keeps-every-entry")
        if _av.has_unk(v):
            ctx.undecided(rule, key, f"what TreeToODE.{h} returns is not understood", f.where())
            continue
        merging = [c for c in _av.find_all(v, "call") if c[1].split(".")[-1] in ("fromkeys", "set", "frozenset", "unique", "OrderedDict") and c[2]] + [c for c in _av.find_all(v, "mcall") if c[2] in ("fromkeys",)]
        ctx.check(not merging, rule, key, "every entry of the block is handed on", f"TreeToODE.{h} hands its entries on through `{_av.show(merging[0])[:80] if merging else ''}`, which merges entries that compare equal (two definitions of a name whose right-hand sides use the same variables compare equal): the second definition disappears before the duplicate check sees it", f.where())


def check_all_items_registered(ctx: Ctx, rule: str):
    """TreeToODE.ode: the loop that registers atoms (definitions.setdefault(atom.name, atom) and the insertion into the
    component sets) runs over *every* item of a parsed line; only Comment / str items may be skipped.  Regrouping the
    items first (a dict keyed by type, itertools.groupby, a set) can drop items: an assignment before a comment line
    would silently disappear."""
    from . import util as _u

    sm = ctx.sm
    tf = _u.nf(ctx, "transformer.py", "TreeToODE.ode")
    key = tf.key("every-item-of-a-line")
    outer = [n for n in tf.node.body if isinstance(n, ast.For)]
    regs = [c for c in ast.walk(tf.node) if isinstance(c, ast.Call) and isinstance(c.func, ast.Attribute) and c.func.attr == "setdefault" and len(c.args) == 2 and norm(c.args[0]).endswith(".name")]
    if not outer or not regs:
        ctx.undecided(rule, key, "TreeToODE.ode: the loop over the parsed lines / the registration of atoms is not found", tf.where())
        return
    inner = None
    for lp in ast.walk(outer[0]):
        if isinstance(lp, ast.For) and lp is not outer[0] and any(x is regs[0] for x in ast.walk(lp)):
            inner = lp  # innermost wins (walk is breadth first: keep overwriting)
    if inner is None or not isinstance(outer[0].target, ast.Name):
        ctx.undecided(rule, key, "TreeToODE.ode: atoms are not registered in a loop over the items of a line", tf.where())
        return
    line = outer[0].target.id
    it = inner.iter
    while isinstance(it, ast.Call) and isinstance(it.func, ast.Name) and it.func.id in ("tuple", "list", "iter") and len(it.args) == 1:
        it = it.args[0]
    txt = norm(it)
    lossy = [w for w in ("groupby", ".values()", "set(", "dict(", "fromkeys") if w in txt]
    # follow one local: `groups = {...}` built from the line
    if isinstance(it, ast.Name) and it.id != line:
        defs = [n.value for n in ast.walk(tf.node) if isinstance(n, ast.Assign) and any(isinstance(t, ast.Name) and t.id == it.id for t in n.targets)]
        txt = " ; ".join(norm(d) for d in defs) or txt
        lossy = [w for w in ("groupby", ".values()", "set(", "dict(", "fromkeys") if w in txt]
    if isinstance(it, ast.Name) and it.id == line:
        ctx.ok(rule, key, "atoms are registered in a loop over the line itself", tf.where(inner))
    elif lossy or any(isinstance(n, (ast.DictComp, ast.SetComp)) for n in ast.walk(inner.iter)) or ("groups" in txt and "groupby" in norm(tf.node)):
        ctx.fail(rule, key, f"TreeToODE.ode registers the atoms of `{txt[:90]}`, a regrouping of the line's items ({', '.join(lossy) or 'dict / set'}): items can be merged or dropped by it, so an assignment next to a comment line inside a block can silently disappear from the model", tf.where(inner))
    else:
        ctx.undecided(rule, key, f"TreeToODE.ode registers the atoms of `{txt[:90]}`; whether that is every item of the line is not decided", tf.where(inner))


def check_component_tags_verbatim(ctx: Ctx, rule: str):
    """Which component an atom belongs to is the quoted tag as written (quotes removed): pairing of states with their
    derivatives, duplicate detection across components and `check_components` all compare these strings.  A tag that is
    normalised on the way (stripped, case-folded, split) merges components the text keeps apart - a derivative declared
    under another tag than its state is then accepted."""
    from .c17 import TEXT_TRANSFORMS

    f = ctx.sm.func("transformer.py", "find_components", required=False)
    if f is None:
        ctx.undecided(rule, "src/gotranx/transformer.py::find_components::verbatim", "find_components not found; how component tags are read is not judged", "")
        return
    adds = [c for c in ast.walk(f.node) if isinstance(c, ast.Call) and isinstance(c.func, ast.Attribute) and c.func.attr in ("append", "add", "extend", "insert")]
    bad = []
    for c in adds:
        for a in c.args:
            for x in ast.walk(a):
                if isinstance(x, ast.Call) and isinstance(x.func, ast.Attribute) and x.func.attr in TEXT_TRANSFORMS | {"casefold", "title", "capitalize", "swapcase"}:
                    bad.append(x)
    # comprehension form: tuple(remove_quotes(str(t)) for t in ...)
    for x in ast.walk(f.node):
        if isinstance(x, (ast.GeneratorExp, ast.ListComp)):
            for y in ast.walk(x.elt):
                if isinstance(y, ast.Call) and isinstance(y.func, ast.Attribute) and y.func.attr in TEXT_TRANSFORMS | {"casefold", "title", "capitalize", "swapcase"}:
                    bad.append(y)
    ctx.check(not bad, rule, f.key("verbatim"), "component tags are the quoted text, quotes removed, nothing else", f"find_components rewrites a component tag with `{norm(bad[0])[:70] if bad else ''}`: tags the text keeps apart are merged into one component, so a derivative (or a second definition) under another tag than its state is accepted", f.where(bad[0]) if bad else f.where())
    rq = ctx.sm.func("transformer.py", "remove_quotes", required=False)
    if rq is not None:
        from . import util as _u

        v = _u.value_of(ctx, rq)
        from sa import av as _a

        calls = [m for m in _a.find_all(v, "mcall")]
        only_quotes = bool(calls) and all(m[2] == "replace" and len(m[3]) == 2 and m[3][0] in (_a.C("'"), _a.C('"')) and m[3][1] == _a.C("") for m in calls) and not _a.has_unk(v)
        if _a.has_unk(v):
            ctx.undecided(rule, rq.key("only-quotes"), "what remove_quotes returns is not understood", rq.where())
        else:
            ctx.check(only_quotes, rule, rq.key("only-quotes"), "remove_quotes removes the two quote characters only", f"remove_quotes computes `{_a.show(v)[:100]}`: more than the quote characters is removed from (or changed in) a component tag", rq.where())
