"""C09 - generated code and slot layout are reproducible across processes and histories."""

from __future__ import annotations

import ast
import re

from sa.core import Ctx
from sa.op import HASH, TEXT, OPEngine
from sa.sm import dotted, norm, walk_no_nested

ACCESSORS = [
    "ODE.states",
    "ODE.parameters",
    "ODE.intermediates",
    "ODE.state_derivatives",
    "ODE.sorted_assignments",
    "ODE.sorted_states",
    "ODE.sorted_state_derivatives",
    "ODE.missing_variables",
    "sort_assignments",
]

OUT_OF_SCOPE = {
    "src/gotranx/myokit.py": "Myokit import/export (C15): the Myokit API is keyed by variable names; not on the load->generate path",
}


def op_engine(ctx: Ctx) -> OPEngine:
    if "op_engine" in ctx.__dict__:
        return ctx.op_engine
    sm = ctx.sm
    scope = [r for r in sm.modules if r not in OUT_OF_SCOPE]
    acc = {(sm.rel("ode.py"), q) for q in ACCESSORS}
    eng = OPEngine(sm, scope, text_attrs=("components",), accessor_sinks=acc, eq_sinks={(sm.rel("ode.py"), "ODE.__eq__")}).run()
    ctx.op_engine = eng
    return eng


def report_op(ctx: Ctx, rule: str, kind: str):
    """One obligation per iteration site that introduces order `kind`; one failure per origin that reaches a sink."""
    eng = op_engine(ctx)
    by_origin: dict[str, list] = {}
    for v in eng.violations:
        for t in v.taints:
            if t.startswith(kind + "@"):
                by_origin.setdefault(t[len(kind) + 1:], []).append(v)
    n_sites = 0
    for s in eng.sites:
        is_src = (kind == HASH and s.operand.startswith("set[")) or (kind == TEXT and any(t.startswith(TEXT) for t in s.taints))
        if not is_src:
            continue
        n_sites += 1
        origin_key = f"{s.rel}::{s.qual}::{s.text}"
        hit = [o for o in by_origin if o.startswith(origin_key[:len(origin_key)])]
        if not hit:
            ctx.ok(rule, f"{s.rel}::{s.qual}::iter::{s.text}", f"iteration over {s.operand}: {s.verdict}; the order reaches no order-sensitive sink", f"{s.rel}:{s.line}")
    for origin, vs in sorted(by_origin.items()):
        sinks = sorted({f"{v.sink.split(' (')[0]} in {v.qual}" for v in vs})
        first = vs[0]
        ctx.fail(
            rule,
            f"{origin.split(' [')[0]}",
            f"{kind}-dependent order introduced at `{origin}` reaches {len(sinks)} order-sensitive sink(s): " + "; ".join(sinks[:8]),
            f"{first.rel}:{first.line}",
            trace=[f"{v.rel}:{v.line} {v.qual}: {v.sink}" for v in vs[:15]],
        )
    ctx.extra.setdefault("op_sites", {})[kind] = n_sites
    ctx.extra["op_unresolved_sites"] = len(eng.unresolved)
    ctx.extra["op_total_sites"] = len(eng.sites)
    if kind == HASH and n_sites < 20:
        ctx.broken(f"order analysis typed only {n_sites} set-iteration sites (25 were confirmed by hand); the annotation-based typing no longer matches the code")
    return eng


def global_mutations(ctx: Ctx, rule: str, only_rel: str | None = None):
    """R09.b: no function on the load/generate path mutates process-global objects."""
    sm = ctx.sm
    allowed_calls = {"structlog.configure": "logging configuration in the CLI entry points (does not influence generated text)", "_structlog.configure": "logging configuration at import"}
    n = 0
    for f in sm.all_funcs():
        rel = f.rel
        if only_rel is not None and not rel.endswith(only_rel):
            continue
        # a memoising decorator keeps results for the life of the process, keyed by the arguments only: what comes back on
        # a later call is the *same object* (a list a caller has extended since), whatever model or option changed meanwhile
        for d_ in f.decorators():
            if d_.split("(")[0].split(".")[-1] in ("cache", "lru_cache"):
                ctx.fail(rule, f.key(f"memoised::{d_.split('(')[0]}"), f"{f.qualname} is decorated with @{d_.split('(')[0]}: its result is remembered across calls (process-wide, keyed by the arguments only) and handed out again as the same object - output then depends on what was generated before in the process", f.where())
        mod = sm.modules[rel]
        module_names = set()
        for st in mod.body:
            if isinstance(st, (ast.FunctionDef, ast.ClassDef)):
                module_names.add(st.name)
            elif isinstance(st, ast.Assign):
                for t in st.targets:
                    if isinstance(t, ast.Name):
                        module_names.add(t.id)
            elif isinstance(st, ast.AnnAssign) and isinstance(st.target, ast.Name):
                module_names.add(st.target.id)
            elif isinstance(st, (ast.Import, ast.ImportFrom)):
                if isinstance(st, ast.ImportFrom) and st.module == "__future__":
                    continue  # compiler directives, not objects of the module
                for a in st.names:
                    module_names.add((a.asname or a.name).split(".")[0])
        locals_ = set(f.params)
        aliases: dict[str, str] = {}
        for nd in walk_no_nested(f.node):
            if isinstance(nd, ast.Assign):
                for t in nd.targets:
                    for x in ast.walk(t):
                        if isinstance(x, ast.Name) and isinstance(x.ctx, ast.Store):
                            locals_.add(x.id)
                            if isinstance(nd.value, ast.Name) and nd.value.id in module_names and isinstance(t, ast.Name):
                                aliases.setdefault(x.id, nd.value.id)
                            elif isinstance(t, ast.Name):
                                aliases[x.id] = aliases.get(x.id, "") if isinstance(nd.value, ast.Name) and nd.value.id in module_names else "<local value>"
            elif isinstance(nd, (ast.For, ast.comprehension)):
                for x in ast.walk(nd.target):
                    if isinstance(x, ast.Name):
                        locals_.add(x.id)
                        aliases[x.id] = "<local value>"
            elif isinstance(nd, (ast.With,)):
                for it in nd.items:
                    if it.optional_vars is not None:
                        for x in ast.walk(it.optional_vars):
                            if isinstance(x, ast.Name):
                                locals_.add(x.id)
                                aliases[x.id] = "<local value>"
            elif isinstance(nd, ast.NamedExpr) and isinstance(nd.target, ast.Name):
                locals_.add(nd.target.id)
                aliases[nd.target.id] = "<local value>"
            elif isinstance(nd, ast.AnnAssign) and isinstance(nd.target, ast.Name):
                # an annotated assignment binds a local like a plain one (a bare annotation declares one)
                locals_.add(nd.target.id)
                if isinstance(nd.value, ast.Name) and nd.value.id in module_names:
                    aliases.setdefault(nd.target.id, nd.value.id)
                else:
                    aliases[nd.target.id] = "<local value>"
            elif isinstance(nd, ast.ExceptHandler) and nd.name:
                locals_.add(nd.name)
                aliases[nd.name] = "<local value>"
            elif isinstance(nd, (ast.Import, ast.ImportFrom)):
                for a_ in nd.names:
                    nm_ = (a_.asname or a_.name).split(".")[0]
                    locals_.add(nm_)
                    aliases[nm_] = "<local value>"
            elif isinstance(nd, (ast.FunctionDef, ast.ClassDef)) and nd is not f.node:
                locals_.add(nd.name)
                aliases[nd.name] = "<local value>"

        def global_root(node) -> str | None:
            root = node
            while isinstance(root, (ast.Attribute, ast.Subscript)):
                root = root.value
            if not isinstance(root, ast.Name):
                return None
            if root.id in ("self", "cls"):
                return None
            if root.id in locals_:
                a = aliases.get(root.id)
                if a and a != "<local value>":
                    # a local that is only ever bound to module-level objects is an alias of them
                    vals = [nd.value for nd in walk_no_nested(f.node) if isinstance(nd, ast.Assign) and any(isinstance(t, ast.Name) and t.id == root.id for t in nd.targets)]
                    if vals and all(isinstance(v, ast.Name) and v.id in module_names for v in vals):
                        return "/".join(sorted({v.id for v in vals}))
                return None
            if root.id in module_names:
                return root.id
            return None

        for nd in walk_no_nested(f.node):
            n += 1
            if isinstance(nd, ast.Global):
                ctx.fail(rule, f.key("global::" + ",".join(nd.names)), f"{f.qualname} declares `global {', '.join(nd.names)}`: module state written at run time makes results depend on earlier calls", f.where(nd))
            tgts = []
            if isinstance(nd, ast.Assign):
                tgts = nd.targets
            elif isinstance(nd, (ast.AugAssign, ast.AnnAssign)):
                tgts = [nd.target]
            for t in tgts:
                if isinstance(t, (ast.Attribute, ast.Subscript)):
                    g = global_root(t)
                    if g:
                        ctx.fail(rule, f.key(f"store::{norm(t)}"), f"{f.qualname} stores into `{norm(t)}`, i.e. into the module-level object `{g}`: later calls (in the same process) see the modified object, so the same request can give different results depending on history", f.where(nd))
            if isinstance(nd, ast.Call):
                d = dotted(nd.func) or ""
                if d in allowed_calls:
                    continue
                if d in ("setattr", "delattr") and nd.args:
                    g = global_root(nd.args[0]) if isinstance(nd.args[0], (ast.Name, ast.Attribute, ast.Subscript)) else None
                    if isinstance(nd.args[0], ast.Name) and nd.args[0].id in module_names and nd.args[0].id not in locals_:
                        g = nd.args[0].id
                    if g:
                        ctx.fail(rule, f.key(f"setattr::{norm(nd.args[0])}"), f"{f.qualname} calls {d}() on the module-level object `{g}`", f.where(nd))
                if isinstance(nd.func, ast.Attribute) and nd.func.attr in ("append", "add", "update", "setdefault", "extend", "insert", "pop", "clear", "remove", "discard", "__setitem__"):
                    recv = nd.func.value
                    if isinstance(recv, ast.Name) and recv.id in module_names and recv.id not in locals_:
                        ctx.fail(rule, f.key(f"mutate::{norm(nd.func)}"), f"{f.qualname} mutates the module-level container `{recv.id}` ({norm(nd)[:60]})", f.where(nd))
                    elif isinstance(recv, ast.Name) and recv.id in locals_:
                        g = global_root(recv)
                        if g and g not in ("logger",):
                            ctx.fail(rule, f.key(f"mutate::{norm(nd.func)}"), f"{f.qualname} mutates `{recv.id}`, which is the module-level object `{g}` ({norm(nd)[:60]}): what one call adds is still there for the next call", f.where(nd))
        decs = [d for d in f.decorators() if "cache" in d and "cached_property" not in d]
        if decs and "." not in f.qualname:
            ctx.fail(rule, f.key("cache-decorator"), f"{f.qualname} is memoised at module level ({decs}): results depend on earlier calls if any argument is mutable or compared by identity", f.where())
        ctx.ok(rule, f.key("no-global-write"), "no store into module-level objects", f.where(), nontrivial=False)
    return n


def run(ctx: Ctx):
    ctx.assume("receiver types come from the package's own annotations (no type checker is available); sites whose operand cannot be typed are counted, not guessed")
    ctx.assume("sympy's own printing/simplification and graphlib.TopologicalSorter are deterministic given their inputs in a fixed order")
    ctx.rule("R09.a", "no hash-dependent order (iteration over set/frozenset, non-injective sort keys) reaches emitted text, slot numbers, the topological sorter, templates or an ordered public accessor", floor=20)
    report_op(ctx, "R09.a", HASH)
    ctx.rule("R09.b", "no function of the package writes process-global state (attributes of module-level functions/classes/modules, module-level containers, `global`)", floor=50)
    global_mutations(ctx, "R09.b")
    # ... nor keeps results on the model or generator object between calls: the same text and options must give the same
    # bytes whatever was asked of that object before (a memo filled by the first caller's options is handed to the next)
    from .c12 import check_generator_purity

    check_generator_purity(ctx, "R09.b", classes=(("ode.py", "ODE"), ("codegen/base.py", "CodeGenerator"), ("codegen/python.py", "PythonCodeGenerator"), ("codegen/c.py", "CCodeGenerator"), ("codegen/jax.py", "JaxCodeGenerator")))
    ctx.rule("R09.c", "no public function of the package modifies a caller-supplied argument in place (a list of options passed twice gives the same result twice)", floor=30)
    argument_mutations(ctx, "R09.c")
    ctx.rule("R09.d", "nothing on the load -> generate path draws on a per-process or per-call source (sympy.Dummy's global counter, id(), hash(), uuid, random, clocks, process ids)", floor=25)
    process_dependent_sources(ctx, "R09.d")
    for rel, why in OUT_OF_SCOPE.items():
        ctx.notes.append(f"out of scope for the order analysis: {rel}: {why}")


# call tails / dotted prefixes whose result differs between two processes, or between two calls in one process
PROCESS_SOURCES = {
    "Dummy": "sympy.Dummy is printed as `<name>_<dummy_index>`; the index is a random base drawn at import plus a process-global counter",
    "id": "id() is a memory address",
    "hash": "hash() of a str / bytes depends on PYTHONHASHSEED",
    "uuid1": "uuid", "uuid4": "uuid", "getpid": "process id", "urandom": "os.urandom", "token_hex": "secrets",
    "time": "a clock", "time_ns": "a clock", "now": "a clock", "today": "a clock", "utcnow": "a clock", "ctime": "a clock", "strftime": "a clock",
    "random": "random", "randint": "random", "choice": "random", "shuffle": "random", "sample": "random", "getrandbits": "random", "mkdtemp": "a temporary name", "mkstemp": "a temporary name", "gettempdir": "environment",
}
TEXT_PRODUCING = re.compile(r"/(codegen|templates)/|/schemes\.py$|/cli/gotran2|/save\.py$")
PROCESS_MODULES = {"random", "uuid", "secrets", "time", "datetime", "tempfile"}


class _Ref:
    def __init__(self, node):
        self.func = node
        self.lineno = node.lineno


def process_dependent_sources(ctx: Ctx, rule: str):
    """One obligation per function of the modules between load and generated text.  `time`, `random`, `choice` ... are
    only sources when they are called through their module (time.time(), random.random()) or imported from it; `id`,
    `hash`, `Dummy` are sources wherever they are called (a local function shadowing them would be the package's own)."""
    from sa.sm import walk_no_nested

    sm = ctx.sm
    n = 0
    for short in sorted(sm.modules):
        if "/cli/" in short and not short.endswith(("gotran2py.py", "gotran2c.py", "utils.py")):
            continue
        imps = sm.module_imports(short)
        for f in sm.funcs_in(short):
            n += 1
            hit = None
            bound = set(f.params) | {t.id for n_ in walk_no_nested(f.node) for t in ast.walk(n_) if isinstance(t, ast.Name) and isinstance(t.ctx, ast.Store)}
            for c in walk_no_nested(f.node):
                # a *reference* counts (sympy.Dummy bound to a local and called later, key=id, key=hash)
                if not (isinstance(c, (ast.Attribute, ast.Name)) and isinstance(c.ctx, ast.Load)):
                    continue
                d = dotted(c) or ""
                tail = d.split(".")[-1]
                head = d.split(".")[0]
                if tail not in PROCESS_SOURCES:
                    continue
                if PROCESS_SOURCES[tail] == "a clock" and not TEXT_PRODUCING.search(short):
                    continue  # timing a load for a log line is not part of what is generated (perf_counter / monotonic never are)
                origin = imps.get(head, "")
                if tail in ("Dummy", "id", "hash"):
                    if tail in ("id", "hash") and ("." in d or tail in bound):
                        continue
                    hit = (_Ref(c), tail)
                elif (origin.split(".")[0] in PROCESS_MODULES) or (head in PROCESS_MODULES and head not in bound and "." in d):
                    hit = (_Ref(c), tail)
                if hit:
                    break
            if hit is None:
                ctx.ok(rule, f.key("process-dependent-source"), "no per-process source", f.where(), nontrivial=False)
            else:
                ctx.fail(rule, f.key("process-dependent-source"), f"{f.qualname} calls `{norm(hit[0].func)}` ({PROCESS_SOURCES[hit[1]]}): what is generated can differ between two processes or between two calls for the same model", f.where(hit[0]))


MUTATORS = {"append", "extend", "insert", "remove", "pop", "clear", "sort", "reverse", "add", "discard", "update", "setdefault", "popitem", "difference_update", "intersection_update", "symmetric_difference_update"}
# parameters that are *meant* to be filled by the callee (the caller hands in a fresh object): one line of reason each
OUT_PARAMS: dict[tuple[str, str], str] = {}


def argument_mutations(ctx: Ctx, rule: str):
    """For every function: the set of its parameters whose object it modifies in place - directly (method call,
    subscript / attribute store, del, augmented assignment on an alias that was never re-bound) or by handing it to a
    package function that does.  A *public* function with a non-empty set changes what its caller passed in: the next
    call with the same object (the same stiff_states list, the same values dict) starts from different data."""
    from sa.sm import walk_no_nested

    sm = ctx.sm
    funcs = [f for f in sm.all_funcs() if not f.rel.endswith(("myokit.py",)) or True]
    direct: dict = {}
    passes: dict = {}

    def analyse(f):
        params = [p for p in f.params if p not in ("self", "cls")]
        alias = {p: p for p in params}  # local name -> parameter it still refers to
        # names that are re-bound to something that is not a parameter stop being aliases at their first re-binding;
        # conservative in the other direction: a name bound to a fresh value before any use is not an alias at all
        stmts = list(walk_no_nested(f.node))
        rebinds: dict[str, list] = {}
        for nd in stmts:
            if isinstance(nd, ast.Assign):
                for t in nd.targets:
                    if isinstance(t, ast.Name):
                        rebinds.setdefault(t.id, []).append(nd)
            elif isinstance(nd, ast.AnnAssign) and isinstance(nd.target, ast.Name) and nd.value is not None:
                rebinds.setdefault(nd.target.id, []).append(nd)
        for name, asg in rebinds.items():
            vals = [a.value for a in asg]
            if name in params:
                # `if p is None: p = []` keeps the caller's object on the other path: still an alias.  A parameter
                # that is re-bound unconditionally at the top (p = list(p)) is a copy from then on.
                first = asg[0]
                top = first in f.node.body
                if top and not (isinstance(first.value, ast.Name) and first.value.id == name) and first.lineno <= min([n.lineno for n in stmts if isinstance(n, ast.Name) and n.id == name and isinstance(n.ctx, ast.Load) and not any(n in ast.walk(a.value) for a in asg[:1])] or [10**9]):
                    alias.pop(name, None)
                continue
            if all(isinstance(v, ast.Name) and v.id in params for v in vals):
                alias[name] = vals[0].id
        mut: dict[str, ast.AST] = {}
        handed: list = []

        def root(n):
            while isinstance(n, (ast.Subscript, ast.Attribute)):
                n = n.value
            return n.id if isinstance(n, ast.Name) else None

        for nd in stmts:
            if isinstance(nd, ast.Call) and isinstance(nd.func, ast.Attribute) and nd.func.attr in MUTATORS and isinstance(nd.func.value, ast.Name) and nd.func.value.id in alias:
                mut.setdefault(alias[nd.func.value.id], nd)
            elif isinstance(nd, (ast.Assign, ast.AugAssign, ast.AnnAssign, ast.Delete)):
                tgts = nd.targets if isinstance(nd, (ast.Assign, ast.Delete)) else [nd.target]
                for t in tgts:
                    if isinstance(t, ast.Subscript) and isinstance(t.value, ast.Name) and t.value.id in alias:
                        mut.setdefault(alias[t.value.id], nd)
                    elif isinstance(nd, ast.AugAssign) and isinstance(t, ast.Name) and t.id in alias and isinstance(nd.op, (ast.Add, ast.BitOr, ast.BitAnd, ast.Sub)) and False:
                        pass
            if isinstance(nd, ast.Call):
                for i, a in enumerate(nd.args):
                    if isinstance(a, ast.Name) and a.id in alias:
                        handed.append((nd, i, None, alias[a.id]))
                for k in nd.keywords:
                    if k.arg and isinstance(k.value, ast.Name) and k.value.id in alias:
                        handed.append((nd, None, k.arg, alias[k.value.id]))
        direct[f] = mut
        passes[f] = handed

    for f in funcs:
        analyse(f)
    from sa import av as _av

    A = _av.AV(sm)
    summary = {f: dict(m) for f, m in direct.items()}
    changed = True
    rounds = 0
    while changed and rounds < 6:
        changed = False
        rounds += 1
        for f in funcs:
            for call, i, kw, p in passes[f]:
                if p in summary[f]:
                    continue
                try:
                    callee = A._resolve(call.func, _av.Frame(f, f.rel, {}, 0, 0))
                except Exception:
                    callee = None
                if callee is None or callee not in summary:
                    continue
                cps = [x for x in callee.params]
                if cps and cps[0] in ("self", "cls") and isinstance(call.func, ast.Attribute):
                    cps = cps[1:]
                q = kw if kw is not None else (cps[i] if i is not None and i < len(cps) else None)
                if q is not None and q in summary[callee]:
                    summary[f][p] = call
                    changed = True
    n = 0
    for f in funcs:
        public = not f.name.startswith("_") or (f.name.startswith("__") and f.name.endswith("__"))
        parts = f.qualname.split(".")
        is_method = len(parts) == 2 and any(qn == parts[0] for (_rel, qn) in sm.classes)
        if not public or not (len(parts) == 1 or is_method):
            continue  # private helpers and nested functions are judged through the public functions that call them
        n += 1
        bad = {p: nd for p, nd in summary[f].items() if (f.rel.replace("src/gotranx/", ""), f"{f.qualname}:{p}") not in OUT_PARAMS}
        if not bad:
            ctx.ok(rule, f.key("arguments"), "no argument is modified in place", f.where())
        for p, nd in bad.items():
            ctx.fail(rule, f.key(f"argument::{p}"), f"{f.qualname} modifies its argument `{p}` in place (`{norm(nd)[:70]}`): the caller's object is changed, so a second call with the same object (the same list of options, the same dict) does not start from the same input - the result depends on the history of calls", f.where(nd))
    ctx.extra["argument_mutation_functions"] = n
