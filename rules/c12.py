"""C12 - removing unused variables never changes results (structure of the liveness filter and of the layout)."""

from __future__ import annotations

import ast

from sa.core import Ctx
from sa.sm import call_kw, dotted, find_calls, norm, walk_no_nested

from . import common
from .c04 import slot_families


def run(ctx: Ctx):
    sm = ctx.sm
    ctx.assume("numerical equality of the two generated modules is NOT decided; the filter, the unpacking and the slot layout are")
    cgc = sm.cls("codegen/base.py", "CodeGenerator")

    # ---- R12.a liveness provenance ---------------------------------------------------------
    ctx.rule("R12.a", "every removal predicate is `name in ODE.dependents()`, and dependents() records every dependency of every assignment of every component, unfiltered", floor=5)
    dep = sm.func("ode.py", "ODE.dependents")
    fors = [n for n in ast.walk(dep.node) if isinstance(n, ast.For)]
    iters = [norm(f.iter) for f in fors]
    want = ["self.components", "component.assignments", "assignment.value.dependencies"]
    ok = len(fors) == 3 and iters[0].endswith("components") and iters[1].endswith(".assignments") and iters[2].endswith(".value.dependencies")
    ctx.check(ok, "R12.a", dep.key("loops"), "components x assignments x dependencies", f"ODE.dependents iterates {iters}, expected every dependency of every assignment of every component ({want})", dep.where())
    # nothing filters: the only conditional may be the None-value guard that raises
    bad = []
    for n in ast.walk(dep.node):
        if isinstance(n, (ast.Continue, ast.Break)):
            bad.append(norm(n))
        if isinstance(n, ast.If):
            if not all(isinstance(s, (ast.Raise, ast.Assign, ast.Expr)) and (isinstance(s, ast.Raise) or True) for s in n.body) or not any(isinstance(s, ast.Raise) for s in n.body) or n.orelse:
                bad.append("if " + norm(n.test))
        if isinstance(n, (ast.ListComp, ast.GeneratorExp, ast.SetComp, ast.DictComp)) and any(g.ifs for g in n.generators):
            bad.append(norm(n)[:60])
    ctx.check(not bad, "R12.a", dep.key("unfiltered"), "no assignment or dependency is skipped", f"ODE.dependents skips something: {bad}; a name that is read could be reported as unused", dep.where())
    stores = [n for n in ast.walk(dep.node) if isinstance(n, ast.Call) and isinstance(n.func, ast.Attribute) and n.func.attr == "add" and isinstance(n.func.value, ast.Subscript)]
    oks = False
    if stores and len(fors) == 3:
        st = stores[0]
        dvar = fors[2].target.id if isinstance(fors[2].target, ast.Name) else None
        avar = fors[1].target.id if isinstance(fors[1].target, ast.Name) else None
        oks = norm(st.func.value.slice) == dvar and st.args and norm(st.args[0]) == f"{avar}.name"
    ctx.check(oks, "R12.a", dep.key("record"), "dependents[dependency].add(assignment.name)", "ODE.dependents does not record dependents[dependency].add(assignment.name)", dep.where())

    init = cgc.methods["__init__"]
    lambdas = []
    for n in ast.walk(init.node):
        if isinstance(n, ast.Assign) and norm(n.targets[0]) == "self._condition" and isinstance(n.value, ast.Lambda):
            chain = common.cond_chain(init.node, n) or []
            lambdas.append((chain, n.value, n))
    okc = False
    deps_src = None
    for n in ast.walk(init.node):
        if isinstance(n, ast.Assign) and norm(n.targets[0]) == "self.deps":
            deps_src = norm(n.value)
    on = [l for c, l, _ in lambdas if ("remove_unused", True) in c]
    off = [l for c, l, _ in lambdas if ("remove_unused", False) in c]
    if on and off:
        p = on[0].args.args[0].arg
        okc = norm(on[0].body) == f"{p} in self.deps" and norm(off[0].body) == "True" and deps_src == "self.ode.dependents()"
    ctx.check(okc, "R12.a", init.key("_condition"), "_condition = (name in ode.dependents()) when remove_unused else True", f"CodeGenerator.__init__: the liveness predicate is not `x in self.ode.dependents()` / `True` (deps = {deps_src}, lambdas = {[norm(l) for _, l, _ in lambdas]})", init.where())

    from . import util

    sa_f = util.nf(ctx, "ode.py", "ODE.sorted_assignments")
    tests = []
    for n in ast.walk(sa_f.node):
        if isinstance(n, ast.Compare) and len(n.ops) == 1 and isinstance(n.ops[0], (ast.In, ast.NotIn)) and norm(n.left).endswith(".name"):
            tests.append((n, util.ctext(sa_f, n.comparators[0])))
    live = [t for t in tests if t[1] in ("self.dependents()", "self.dependents().keys()", "set(self.dependents())", "set(self.dependents().keys())", "frozenset(self.dependents())")]
    other = [t for t in tests if t not in live and "unused" not in t[1] and "dependents" in t[1]]
    okf = bool(live) and not other
    # the tested element ranges over the intermediates
    if okf:
        var = norm(live[0][0].left)[: -len(".name")]
        rng = [util.ctext(sa_f, l.iter) for l in ast.walk(sa_f.node) if isinstance(l, (ast.For, ast.comprehension)) and isinstance(l.target, ast.Name) and l.target.id == var]
        okf = bool(rng) and all(r in ("self.intermediates", "intermediates") for r in rng)
    ctx.check(okf, "R12.a", sa_f.key("filter"), "an intermediate is dropped iff its name is not in self.dependents()", "ODE.sorted_assignments: the unused-filter is not a membership test of an intermediate's name in self.dependents()", sa_f.where())

    # ---- R12.b reads covered -----------------------------------------------------------------
    ctx.rule("R12.b", "only rhs filters the state unpacking; scheme / monitor_values / missing_values unpack every state; unpack helpers are pure", floor=8)
    for mname, want_arg in (("rhs", "self.remove_unused"), ("scheme", "False"), ("monitor_values", "False"), ("missing_values", "False")):
        f = cgc.methods[mname]
        calls = [c for c in find_calls(f.node, "_state_assignments")]
        ctx.require(calls, f"CodeGenerator.{mname} no longer calls _state_assignments")
        a = call_kw(calls[0], "remove_unused")
        if a is None and len(calls[0].args) > 1:
            a = calls[0].args[1]
        got = norm(a) if a is not None else None
        ctx.check(got == want_arg, "R12.b", f.key("state-unpacking"), f"_state_assignments(remove_unused={want_arg})", f"CodeGenerator.{mname} unpacks the states with remove_unused={got}; expected {want_arg} (schemes and monitors read every state symbol)", f.where(calls[0]))
    sassign = cgc.methods["_state_assignments"]
    gens = [n for n in ast.walk(sassign.node) if isinstance(n, (ast.GeneratorExp, ast.ListComp))]
    okg = bool(gens) and gens[0].generators[0].ifs and norm(gens[0].generators[0].ifs[0]) in ("not remove_unused or self._condition(state.name)", "self._condition(state.name) or not remove_unused")
    ctx.check(okg, "R12.b", sassign.key("filter"), "a state is skipped only if remove_unused and its name has no dependents", "CodeGenerator._state_assignments: the filter is not `not remove_unused or self._condition(state.name)`", sassign.where())
    passign = cgc.methods["_parameter_assignments"]
    gens = [n for n in ast.walk(passign.node) if isinstance(n, (ast.GeneratorExp, ast.ListComp))]
    okp = bool(gens) and gens[0].generators[0].ifs and norm(gens[0].generators[0].ifs[0]) == "self._condition(param.name)"
    ctx.check(okp, "R12.b", passign.key("filter"), "a parameter is skipped only if its name has no dependents", "CodeGenerator._parameter_assignments: the filter is not `self._condition(param.name)`", passign.where())
    # purity: no memoisation keyed on less than the arguments
    for mname, f in cgc.methods.items():
        if mname == "__init__":
            continue
        decs = [d for d in f.decorators() if "cache" in d]
        ctx.check(not decs, "R12.b", f.key("no-cache-decorator"), "not memoised", f"CodeGenerator.{mname} is memoised ({decs}); results computed for one remove_unused setting could be reused for another", f.where(), )
        writes = []
        for n in walk_no_nested(f.node):
            tg = []
            if isinstance(n, ast.Assign):
                tg = n.targets
            elif isinstance(n, (ast.AugAssign, ast.AnnAssign)):
                tg = [n.target]
            for t in tg:
                root = t
                while isinstance(root, (ast.Subscript, ast.Attribute)):
                    if isinstance(root, ast.Attribute) and isinstance(root.value, ast.Name) and root.value.id == "self":
                        writes.append(norm(t))
                        break
                    root = root.value
            if isinstance(n, ast.Call) and isinstance(n.func, ast.Attribute) and n.func.attr in ("setdefault", "update", "append", "add", "__setitem__") and (dotted(n.func.value) or "").startswith("self."):
                writes.append(norm(n)[:60])
        ctx.check(not writes, "R12.b", f.key("no-state-writes"), "generator method keeps no state between calls", f"CodeGenerator.{mname} writes generator state ({writes}); the text generated by one method can then depend on which methods ran before", f.where())
    # every scheme forwards remove_unused into the same accessor it prints from
    for m in common.scheme_models(ctx).values():
        ok = norm(m.seq) == "ode.sorted_assignments(remove_unused=remove_unused)"
        ctx.check(ok, "R12.b", m.func.key("sequence"), "iterates ode.sorted_assignments(remove_unused=remove_unused)", f"{m.func.name} iterates {norm(m.seq)}", m.func.where(m.loop))
    sch = cgc.methods["scheme"]
    fparam = sch.params[1]
    bcall = [c for c in ast.walk(sch.node) if isinstance(c, ast.Call) and isinstance(c.func, ast.Name) and c.func.id == fparam]
    ok = bool(bcall) and call_kw(bcall[0], "remove_unused") is not None and norm(call_kw(bcall[0], "remove_unused")) == "self.remove_unused"
    ctx.check(ok, "R12.b", sch.key("forward"), "scheme builder receives remove_unused=self.remove_unused", "CodeGenerator.scheme does not pass remove_unused=self.remove_unused to the builder", sch.where())

    # ---- R12.c same layout -----------------------------------------------------------------------
    ctx.rule("R12.c", "state slot layout is the same with and without removal (STATE slot family, remove_unused is a post-sort filter over intermediates)", floor=10)
    slot_families(ctx, "R12.c", only_family="STATE", check_guard=False)
