"""C12 - removing unused variables never changes results (structure of the liveness filter and of the layout)."""

from __future__ import annotations

import ast

from sa.core import Ctx
from sa.sm import call_kw, dotted, find_calls, norm, walk_no_nested

from . import common
from .c04 import slot_families


def run(ctx: Ctx):
    sm = ctx.sm
    ctx.assume("numerical equality of the two generated modules is NOT decided; the filter, the unpacking and the slot layout are")
    cgc = sm.cls("codegen/base.py", "CodeGenerator")

    liveness_rules(ctx, {"a": "R12.a", "b": "R12.b"})

    # ---- R12.c same layout -----------------------------------------------------------------------
    ctx.rule("R12.c", "state and parameter slot layouts are the same with and without removal (STATE and PARAM slot families, remove_unused is a post-sort filter over intermediates)", floor=10)
    slot_families(ctx, "R12.c", only_family="STATE", check_guard=False)
    from .c13 import check_missing_table

    check_missing_table(ctx, "R12.c")  # removal never renumbers the missing variables either
    check_backend_overrides(ctx, "R12.b")
    # ---- R12.d the schemes define what they read ------------------------------------------------------------------
    ctx.rule("R12.d", "a scheme defines every helper name its update formula reads, on every path that reads it: it never relies on a definition of the model of the same name (the update formula is generated text, not an edge of the dependency relation - removal of unused definitions would drop the model's)", floor=2)
    from sa import schemes_model as _S

    from . import common as _common

    def _has(term, atom) -> bool:
        return term == atom or (isinstance(term, tuple) and any(_has(x, atom) for x in term))

    for bname, m in sorted(_common.scheme_models(ctx).items()):
        for r in m.rows:
            if r.store is None or not _has(r.store[1], _S.LIN):
                continue
            lin_def = [e for e in r.emissions[: r.store[3]] if e[0] == _S.LIN]
            ctx.check(
                bool(lin_def) and r.lin_defined_before_use is not False,
                "R12.d",
                m.func.key(f"defines-what-it-reads::{sorted(_S.normalise_lits(r.lits))}"),
                "the linearisation helper is printed before the update that reads it",
                f"{m.func.name} path [{r.raw_pred}] reads the linearisation helper in its update but does not print its definition on that path: the generated step then reads a name only the model defines - which `remove_unused` drops, since nothing in the model uses it",
                m.func.where(r.store[2]),
            )
    # the parameter layout: every producer of parameter slots numbers the same sequence (a producer that filters by use
    # *before* numbering renumbers the used parameters)
    slot_families(ctx, "R12.c", only_family="PARAM", check_guard=False, check_ru=False)


def check_generator_purity(ctx: Ctx, rule: str, only: set | None = None, classes=(("codegen/base.py", "CodeGenerator"),)):
    """generator methods keep no state between calls (no cache decorator, no writes to self): what a method returns
    depends on its arguments and the model only - not on an earlier call with other options"""
    for short, cname in classes:
        cgc = ctx.sm.cls(short, cname, required=False)
        if cgc is None:
            continue
        # purity: no memoisation keyed on less than the arguments
        for mname, f in cgc.methods.items():
            if mname == "__init__" or (only is not None and mname not in only):
                continue
            # (a cached_property takes no arguments: its key - the object - is complete as long as the object is not modified,
            # which the state-write obligation below decides)
            decs = [d for d in f.decorators() if "cache" in d and d.split("(")[0].split(".")[-1] != "cached_property"]
            ctx.check(not decs, rule, f.key("no-cache-decorator"), "not memoised", f"{cname}.{mname} is memoised ({decs}); results computed for one remove_unused setting could be reused for another", f.where(), )
            writes = []
            for n in walk_no_nested(f.node):
                tg = []
                if isinstance(n, ast.Assign):
                    tg = n.targets
                elif isinstance(n, (ast.AugAssign, ast.AnnAssign)):
                    tg = [n.target]
                for t in tg:
                    root = t
                    while isinstance(root, (ast.Subscript, ast.Attribute)):
                        if isinstance(root, ast.Attribute) and isinstance(root.value, ast.Name) and root.value.id == "self":
                            writes.append(norm(t))
                            break
                        root = root.value
                if isinstance(n, ast.Call) and isinstance(n.func, ast.Attribute) and n.func.attr in ("setdefault", "update", "append", "add", "__setitem__") and (dotted(n.func.value) or "").startswith("self."):
                    writes.append(norm(n)[:60])
            ctx.check(not writes, rule, f.key("no-state-writes"), "generator method keeps no state between calls", f"{cname}.{mname} writes generator state ({writes}); the text generated by one method can then depend on which methods ran before", f.where())


def liveness_rules(ctx: Ctx, R: dict, declare: bool = True):
    """what `remove_unused` may drop: liveness is `name in ODE.dependents()` over the complete dependency relation; only
    rhs filters the unpacking.  R maps 'a' / 'b' to the rule ids the obligations are recorded under."""
    sm = ctx.sm
    cgc = sm.cls("codegen/base.py", "CodeGenerator")

    def decl(rid, text, floor=0):
        if declare:
            ctx.rule(rid, text, floor=floor)

    # ---- R12.a liveness provenance ---------------------------------------------------------
    decl(R["a"], "every removal predicate is `name in ODE.dependents()`, and dependents() records every dependency of every assignment of every component, unfiltered", floor=5)
    from sa import av as _av

    from . import util
    from .c03 import _branches as _br12

    dep = sm.func("ode.py", "ODE.dependents")
    dv = _av.distribute_ifs(util.value_of(ctx, dep))  # conditional raises (value is None) lifted to the top
    table = [_av._unwrap_seq(x) for c, x in _br12(dv) if x[0] != "raise"]
    REF_DEP = ("comp", 1, ("sym", "self.components"), (("spread", ("comp", 2, ("attr", ("bv", 1), "assignments"), (("spread", ("comp", 3, ("attr", ("attr", ("bv", 2), "value"), "dependencies"), (("kadd", ("bv", 3), ("attr", ("bv", 2), "name")),), ())),), ())),), ())
    if len(table) != 1:
        ctx.undecided(R["a"], dep.key("record"), f"what ODE.dependents returns is not understood ({_av.show(dv)[:100]})", dep.where())
    else:
        vd = util.verdict(table[0], [REF_DEP])
        if vd == "unknown":
            ctx.undecided(R["a"], dep.key("record"), f"the table built by ODE.dependents is not understood ({_av.show(table[0])[:120]})", dep.where())
        else:
            ctx.check(vd == "ok", R["a"], dep.key("record"), "dependents[dependency].add(assignment.name) for every dependency of every assignment of every component, unfiltered", f"ODE.dependents builds {_av.show(table[0])[:200]}, not dependency +: assignment.name for every dependency of every assignment of every component: a name that is read could be reported as unused", dep.where())

    from sa import av as _av

    from . import util

    init = cgc.methods["__init__"]
    A_ = util.AV(ctx)
    live = A_.expr("self._condition(x)", env={"self": ("sym", "self"), "x": ("sym", "X")}, func=cgc.methods["rhs"])
    _iv, ienv = A_.returned(init)
    deps_attr = ienv.get("self.deps")
    deps_ok_terms = [("mcall", ("sym", "self.ode"), "dependents", (), ())]
    if deps_attr is not None and deps_attr[0] == "if" and deps_attr[1] == ("sym", "remove_unused") and deps_attr[2] == ("mcall", ("sym", "ode"), "dependents", (), ()) and ienv.get("self.ode") == ("sym", "ode"):
        deps_ok_terms.append(("sym", "self.deps"))
    LIVE = [_av.mk_if(("sym", "self.remove_unused"), ("cmp", "in", ("sym", "X"), dt_), _av.C(True)) for dt_ in deps_ok_terms]
    vd = util.verdict(live, LIVE)
    if vd == "unknown" or (live[0] == "mcall" and live[2] == "_condition"):
        ctx.undecided(R["a"], init.key("_condition"), f"the liveness predicate self._condition is not understood ({_av.show(live)[:100]})", init.where())
    else:
        ctx.check(vd == "ok" and ienv.get("self.remove_unused") == ("sym", "remove_unused"), R["a"], init.key("_condition"), "_condition = (name in ode.dependents()) when remove_unused else True", f"CodeGenerator: the liveness predicate is `{_av.show(live)[:140]}`, not `name in self.ode.dependents()` when remove_unused else True", init.where())

    from . import util

    sa_f = sm.func("ode.py", "ODE.sorted_assignments")
    sv12 = util.value_of(ctx, sa_f)
    inner = _av._unwrap_seq(sv12)
    while inner[0] == "call" and inner[1] in ("tuple", "list") and len(inner[2]) == 1:
        inner = _av._unwrap_seq(inner[2][0])
    ru = ("sym", "remove_unused")
    key12 = sa_f.key("filter")
    if inner[0] != "comp" or _av.has_unk(sv12):
        ctx.undecided(R["a"], key12, f"what ODE.sorted_assignments returns is not understood ({_av.show(sv12)[:100]})", sa_f.where())
    else:
        bv = ("bv", 1)
        deps_t = ("mcall", ("sym", "self"), "dependents", (), ())
        unused = ("comp", 2, ("sym", "self.intermediates"), (("attr", ("bv", 2), "name"),), (_av.mk_cmp("not in", ("attr", ("bv", 2), "name"), deps_t),))
        wants = [
            (_av.mk_if(ru, _av.mk_cmp("not in", bv, unused), _av.C(True)),),
            # equivalently: keep a name iff it is not an intermediate without dependents, expressed on the atom
        ]
        conds = inner[4]
        vd = "ok" if conds in wants else ("unknown" if _av.has_unk(conds) else "bad")
        # a recognisable variation: the filter tests the assignment's own liveness directly
        if vd == "bad" and len(conds) == 1 and conds[0][0] == "if" and conds[0][1] == ru and conds[0][3] == _av.C(True) and "dependents" in _av.show(conds[0][2]) and "intermediates" not in _av.show(conds[0][2]) and "Intermediate" not in _av.show(conds[0][2]):
            why = f"the filter `{_av.show(conds[0][2])[:120]}` is not restricted to intermediates (state derivatives without dependents would be dropped)"
        else:
            why = f"the filter is `{_av.show(conds[0])[:160] if conds else 'absent'}`"
        ctx.check(vd == "ok", R["a"], key12, "an intermediate is dropped iff remove_unused and its name is not in self.dependents()", f"ODE.sorted_assignments: {why}; expected: drop a name iff remove_unused and it is the name of an intermediate that is not in self.dependents()", sa_f.where())

    # ---- R12.b reads covered -----------------------------------------------------------------
    decl(R["b"], "only rhs filters the state unpacking; scheme / monitor_values / missing_values unpack every state; unpack helpers are pure", floor=8)
    # what reaches the template's `states` block of each generated function: the comprehension over the sorted states
    # with its filter.  rhs filters by use when remove_unused is set; the others unpack every state they may read.
    for mname, filtered in (("rhs", True), ("scheme", False), ("monitor_values", False), ("missing_values", False)):
        f = cgc.methods[mname]
        fv_ = util.value_of(ctx, f)
        key_ = f.key("state-unpacking")
        tcalls = [m_ for m_ in _av.find_all(fv_, "mcall") if m_[2] == "method" and _av.show(m_[1]).endswith("template")]
        st_ = dict(tcalls[0][4]).get("states") if tcalls else None
        comps_ = [c_ for c_ in _av.find_all(st_, "comp")] if st_ is not None else []
        if not comps_ or _av.has_unk(st_):
            ctx.undecided(R["b"], key_, f"CodeGenerator.{mname}: the block that unpacks the states is not understood", f.where())
            continue
        conds_ = [c_ for c_ in comps_[0][4] if c_ != _av.C(True)]
        mentions_ru = any(x[1] in ("self.remove_unused", "remove_unused") for c_ in conds_ for x in _av.find_all(c_, "sym"))
        if filtered:
            ctx.check(bool(conds_) and mentions_ru, R["b"], key_, "rhs unpacks the states it reads (all of them unless remove_unused)", f"CodeGenerator.{mname} unpacks the states under `{[_av.show(c_)[:80] for c_ in conds_] or 'no condition'}`; expected the use filter, applied only when remove_unused is set", f.where())
        else:
            ctx.check(not conds_, R["b"], key_, "every state is unpacked", f"CodeGenerator.{mname} unpacks the states under the condition `{_av.show(conds_[0])[:100] if conds_ else ''}`; schemes and monitors read every state symbol, so every state must be unpacked (remove_unused=False)", f.where())
    from .c04 import _single_comp

    def live_of(bvname):
        return [_av.subst(t_, {("sym", "X"): bvname}) for t_ in LIVE] + [("mcall", ("sym", "self"), "_condition", (bvname,), ())]

    sassign = cgc.methods["_state_assignments"]
    sv_ = util.value_of(ctx, sassign)
    cp = _single_comp(sv_) if not _av.has_unk(sv_) else None
    if cp is None:
        ctx.undecided(R["b"], sassign.key("filter"), "what _state_assignments builds is not understood", sassign.where())
    else:
        nm = ("attr", ("bv", cp[1]), "name")
        ru = ("sym", sassign.params[2]) if len(sassign.params) > 2 else ("sym", "remove_unused")
        wants = [_av.mk_not(_av.mk_and(ru, _av.mk_not(l_))) for l_ in live_of(nm)]
        okg = len(cp[4]) == 1 and cp[4][0] in wants
        ctx.check(okg, R["b"], sassign.key("filter"), "a state is skipped only if remove_unused and its name has no dependents", f"CodeGenerator._state_assignments keeps a state iff `{_av.show(cp[4][0])[:140] if cp[4] else 'always'}`, not iff `not remove_unused or <its name has dependents>`", sassign.where())
    passign = cgc.methods["_parameter_assignments"]
    pv_ = util.value_of(ctx, passign)
    cp = _single_comp(pv_) if not _av.has_unk(pv_) else None
    if cp is None:
        ctx.undecided(R["b"], passign.key("filter"), "what _parameter_assignments builds is not understood", passign.where())
    else:
        nm = ("attr", ("bv", cp[1]), "name")
        okp = len(cp[4]) == 1 and cp[4][0] in live_of(nm)
        ctx.check(okp, R["b"], passign.key("filter"), "a parameter is skipped only if its name has no dependents", f"CodeGenerator._parameter_assignments keeps a parameter iff `{_av.show(cp[4][0])[:140] if cp[4] else 'always'}`, not iff <its name has dependents (when remove_unused)>", passign.where())
    check_generator_purity(ctx, R["b"])
    # every scheme forwards remove_unused into the same accessor it prints from
    for m in common.scheme_models(ctx).values():
        ok = norm(m.seq) == "ode.sorted_assignments(remove_unused=remove_unused)"
        ctx.check(ok, R["b"], m.func.key("sequence"), "iterates ode.sorted_assignments(remove_unused=remove_unused)", f"{m.func.name} iterates {norm(m.seq)}", m.func.where(m.loop))
    sch, bcall, _sv = common.scheme_builder_call(ctx)
    if bcall is None:
        ctx.undecided(R["b"], sch.key("forward"), "CodeGenerator.scheme: the call of the scheme builder is not found in what the method computes", sch.where())
    else:
        ok = dict(bcall[3]).get("remove_unused") == ("sym", "self.remove_unused")
        ctx.check(ok, R["b"], sch.key("forward"), "scheme builder receives remove_unused=self.remove_unused", "CodeGenerator.scheme does not pass remove_unused=self.remove_unused to the builder", sch.where())



VETTED_OVERRIDES = {"__init__", "imports", "template", "printer", "_rhs_arguments", "_scheme_arguments"}


def check_backend_overrides(ctx: Ctx, rule: str):
    """The rules about unpacking, liveness and slots are decided on the methods of CodeGenerator; they hold for a backend
    only while that backend does not replace them.  Besides the vetted overrides (constructor, imports, template, printer,
    argument tables) a backend class may only override a concrete method of its base by handing the call on unchanged;
    an override that passes other arguments (e.g. its own `self.remove_unused` for the caller's `remove_unused=False`)
    changes what every caller of that method gets in this backend."""
    from sa import av as _av

    from . import util

    sm = ctx.sm
    base = sm.cls("codegen/base.py", "CodeGenerator")
    py = sm.cls("codegen/python.py", "PythonCodeGenerator")
    chains = {("codegen/python.py", "PythonCodeGenerator"): [base], ("codegen/jax.py", "JaxCodeGenerator"): [py, base], ("codegen/c.py", "CCodeGenerator"): [base]}
    n = 0
    for (short, cname), bases in chains.items():
        c = sm.cls(short, cname, required=False)
        if c is None:
            continue
        for mname, f in c.methods.items():
            inherited = next((b.methods[mname] for b in bases if mname in b.methods), None)
            if inherited is None or mname in VETTED_OVERRIDES or any("abstract" in d for d in inherited.decorators()):
                continue
            n += 1
            key = f.key("override")
            v = util.value_of(ctx, f)
            params = [p for p in f.params if p not in ("self", "cls")]
            calls = [m for m in _av.find_all(v, "mcall") if m[2] == mname and m[1][0] == "call" and m[1][1] == "super"]
            if _av.has_unk(v) or len(calls) != 1 or v != calls[0]:
                ctx.undecided(rule, key, f"{cname} overrides {mname} of its base class; what the override computes is not compared with the base method", f.where())
                continue
            bparams = [p for p in inherited.params if p not in ("self", "cls")]
            bound = dict(zip(bparams, calls[0][3]))
            bound.update(dict(calls[0][4]))
            changed = [p for p in params if p in bound and bound[p] != ("sym", p)]
            ctx.check(not changed, rule, key, f"{cname}.{mname} hands the call on unchanged", f"{cname}.{mname} overrides the base method and passes `{changed[0] if changed else ''}={_av.show(bound[changed[0]]) if changed else ''}` instead of the argument it was given: callers that rely on that argument (the schemes ask for *every* state to be unpacked) get something else in this backend only", f.where())
    if not n:
        ctx.ok(rule, "src/gotranx/codegen::backend-overrides", "no backend overrides a concrete method of its base besides the vetted ones", "")
