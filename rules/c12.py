"""C12 - removing unused variables never changes results (structure of the liveness filter and of the layout)."""

from __future__ import annotations

import ast

from sa.core import Ctx
from sa.sm import call_kw, dotted, find_calls, norm, walk_no_nested

from . import common
from .c04 import slot_families


def run(ctx: Ctx):
    sm = ctx.sm
    ctx.assume("numerical equality of the two generated modules is NOT decided; the filter, the unpacking and the slot layout are")
    cgc = sm.cls("codegen/base.py", "CodeGenerator")

    # ---- R12.a liveness provenance ---------------------------------------------------------
    ctx.rule("R12.a", "every removal predicate is `name in ODE.dependents()`, and dependents() records every dependency of every assignment of every component, unfiltered", floor=5)
    dep = sm.func("ode.py", "ODE.dependents")
    fors = [n for n in ast.walk(dep.node) if isinstance(n, ast.For)]
    iters = [norm(f.iter) for f in fors]
    want = ["self.components", "component.assignments", "assignment.value.dependencies"]
    ok = len(fors) == 3 and iters[0].endswith("components") and iters[1].endswith(".assignments") and iters[2].endswith(".value.dependencies")
    ctx.check(ok, "R12.a", dep.key("loops"), "components x assignments x dependencies", f"ODE.dependents iterates {iters}, expected every dependency of every assignment of every component ({want})", dep.where())
    # nothing filters: the only conditional may be the None-value guard that raises
    bad = []
    for n in ast.walk(dep.node):
        if isinstance(n, (ast.Continue, ast.Break)):
            bad.append(norm(n))
        if isinstance(n, ast.If):
            if not all(isinstance(s, (ast.Raise, ast.Assign, ast.Expr)) and (isinstance(s, ast.Raise) or True) for s in n.body) or not any(isinstance(s, ast.Raise) for s in n.body) or n.orelse:
                bad.append("if " + norm(n.test))
        if isinstance(n, (ast.ListComp, ast.GeneratorExp, ast.SetComp, ast.DictComp)) and any(g.ifs for g in n.generators):
            bad.append(norm(n)[:60])
    ctx.check(not bad, "R12.a", dep.key("unfiltered"), "no assignment or dependency is skipped", f"ODE.dependents skips something: {bad}; a name that is read could be reported as unused", dep.where())
    stores = [n for n in ast.walk(dep.node) if isinstance(n, ast.Call) and isinstance(n.func, ast.Attribute) and n.func.attr == "add" and isinstance(n.func.value, ast.Subscript)]
    oks = False
    if stores and len(fors) == 3:
        st = stores[0]
        dvar = fors[2].target.id if isinstance(fors[2].target, ast.Name) else None
        avar = fors[1].target.id if isinstance(fors[1].target, ast.Name) else None
        oks = norm(st.func.value.slice) == dvar and st.args and norm(st.args[0]) == f"{avar}.name"
    ctx.check(oks, "R12.a", dep.key("record"), "dependents[dependency].add(assignment.name)", "ODE.dependents does not record dependents[dependency].add(assignment.name)", dep.where())

    from sa import av as _av

    from . import util

    init = cgc.methods["__init__"]
    A_ = util.AV(ctx)
    live = A_.expr("self._condition(x)", env={"self": ("sym", "self"), "x": ("sym", "X")}, func=cgc.methods["rhs"])
    _iv, ienv = A_.returned(init)
    deps_attr = ienv.get("self.deps")
    deps_ok_terms = [("mcall", ("sym", "self.ode"), "dependents", (), ())]
    if deps_attr is not None and deps_attr[0] == "if" and deps_attr[1] == ("sym", "remove_unused") and deps_attr[2] == ("mcall", ("sym", "ode"), "dependents", (), ()) and ienv.get("self.ode") == ("sym", "ode"):
        deps_ok_terms.append(("sym", "self.deps"))
    LIVE = [_av.mk_if(("sym", "self.remove_unused"), ("cmp", "in", ("sym", "X"), dt_), _av.C(True)) for dt_ in deps_ok_terms]
    vd = util.verdict(live, LIVE)
    if vd == "unknown" or (live[0] == "mcall" and live[2] == "_condition"):
        ctx.undecided("R12.a", init.key("_condition"), f"the liveness predicate self._condition is not understood ({_av.show(live)[:100]})", init.where())
    else:
        ctx.check(vd == "ok" and ienv.get("self.remove_unused") == ("sym", "remove_unused"), "R12.a", init.key("_condition"), "_condition = (name in ode.dependents()) when remove_unused else True", f"CodeGenerator: the liveness predicate is `{_av.show(live)[:140]}`, not `name in self.ode.dependents()` when remove_unused else True", init.where())

    from . import util

    sa_f = util.nf(ctx, "ode.py", "ODE.sorted_assignments")
    tests = []
    for n in ast.walk(sa_f.node):
        if isinstance(n, ast.Compare) and len(n.ops) == 1 and isinstance(n.ops[0], (ast.In, ast.NotIn)) and norm(n.left).endswith(".name"):
            tests.append((n, util.ctext(sa_f, n.comparators[0])))
    live = [t for t in tests if t[1] in ("self.dependents()", "self.dependents().keys()", "set(self.dependents())", "set(self.dependents().keys())", "frozenset(self.dependents())")]
    other = [t for t in tests if t not in live and "unused" not in t[1] and "dependents" in t[1]]
    okf = bool(live) and not other
    # the tested element ranges over the intermediates
    if okf:
        var = norm(live[0][0].left)[: -len(".name")]
        rng = [util.ctext(sa_f, l.iter) for l in ast.walk(sa_f.node) if isinstance(l, (ast.For, ast.comprehension)) and isinstance(l.target, ast.Name) and l.target.id == var]
        okf = bool(rng) and all(r in ("self.intermediates", "intermediates") for r in rng)
    ctx.check(okf, "R12.a", sa_f.key("filter"), "an intermediate is dropped iff its name is not in self.dependents()", "ODE.sorted_assignments: the unused-filter is not a membership test of an intermediate's name in self.dependents()", sa_f.where())

    # ---- R12.b reads covered -----------------------------------------------------------------
    ctx.rule("R12.b", "only rhs filters the state unpacking; scheme / monitor_values / missing_values unpack every state; unpack helpers are pure", floor=8)
    for mname, want_arg in (("rhs", "self.remove_unused"), ("scheme", "False"), ("monitor_values", "False"), ("missing_values", "False")):
        f = cgc.methods[mname]
        calls = [c for c in find_calls(f.node, "_state_assignments")]
        ctx.require(calls, f"CodeGenerator.{mname} no longer calls _state_assignments")
        a = call_kw(calls[0], "remove_unused")
        if a is None and len(calls[0].args) > 1:
            a = calls[0].args[1]
        got = norm(a) if a is not None else None
        ctx.check(got == want_arg, "R12.b", f.key("state-unpacking"), f"_state_assignments(remove_unused={want_arg})", f"CodeGenerator.{mname} unpacks the states with remove_unused={got}; expected {want_arg} (schemes and monitors read every state symbol)", f.where(calls[0]))
    from .c04 import _single_comp

    def live_of(bvname):
        return [_av.subst(t_, {("sym", "X"): bvname}) for t_ in LIVE] + [("mcall", ("sym", "self"), "_condition", (bvname,), ())]

    sassign = cgc.methods["_state_assignments"]
    sv_ = util.value_of(ctx, sassign)
    cp = _single_comp(sv_) if not _av.has_unk(sv_) else None
    if cp is None:
        ctx.undecided("R12.b", sassign.key("filter"), "what _state_assignments builds is not understood", sassign.where())
    else:
        nm = ("attr", ("bv", cp[1]), "name")
        ru = ("sym", sassign.params[2]) if len(sassign.params) > 2 else ("sym", "remove_unused")
        wants = [_av.mk_not(_av.mk_and(ru, _av.mk_not(l_))) for l_ in live_of(nm)]
        okg = len(cp[4]) == 1 and cp[4][0] in wants
        ctx.check(okg, "R12.b", sassign.key("filter"), "a state is skipped only if remove_unused and its name has no dependents", f"CodeGenerator._state_assignments keeps a state iff `{_av.show(cp[4][0])[:140] if cp[4] else 'always'}`, not iff `not remove_unused or <its name has dependents>`", sassign.where())
    passign = cgc.methods["_parameter_assignments"]
    pv_ = util.value_of(ctx, passign)
    cp = _single_comp(pv_) if not _av.has_unk(pv_) else None
    if cp is None:
        ctx.undecided("R12.b", passign.key("filter"), "what _parameter_assignments builds is not understood", passign.where())
    else:
        nm = ("attr", ("bv", cp[1]), "name")
        okp = len(cp[4]) == 1 and cp[4][0] in live_of(nm)
        ctx.check(okp, "R12.b", passign.key("filter"), "a parameter is skipped only if its name has no dependents", f"CodeGenerator._parameter_assignments keeps a parameter iff `{_av.show(cp[4][0])[:140] if cp[4] else 'always'}`, not iff <its name has dependents (when remove_unused)>", passign.where())
    # purity: no memoisation keyed on less than the arguments
    for mname, f in cgc.methods.items():
        if mname == "__init__":
            continue
        decs = [d for d in f.decorators() if "cache" in d]
        ctx.check(not decs, "R12.b", f.key("no-cache-decorator"), "not memoised", f"CodeGenerator.{mname} is memoised ({decs}); results computed for one remove_unused setting could be reused for another", f.where(), )
        writes = []
        for n in walk_no_nested(f.node):
            tg = []
            if isinstance(n, ast.Assign):
                tg = n.targets
            elif isinstance(n, (ast.AugAssign, ast.AnnAssign)):
                tg = [n.target]
            for t in tg:
                root = t
                while isinstance(root, (ast.Subscript, ast.Attribute)):
                    if isinstance(root, ast.Attribute) and isinstance(root.value, ast.Name) and root.value.id == "self":
                        writes.append(norm(t))
                        break
                    root = root.value
            if isinstance(n, ast.Call) and isinstance(n.func, ast.Attribute) and n.func.attr in ("setdefault", "update", "append", "add", "__setitem__") and (dotted(n.func.value) or "").startswith("self."):
                writes.append(norm(n)[:60])
        ctx.check(not writes, "R12.b", f.key("no-state-writes"), "generator method keeps no state between calls", f"CodeGenerator.{mname} writes generator state ({writes}); the text generated by one method can then depend on which methods ran before", f.where())
    # every scheme forwards remove_unused into the same accessor it prints from
    for m in common.scheme_models(ctx).values():
        ok = norm(m.seq) == "ode.sorted_assignments(remove_unused=remove_unused)"
        ctx.check(ok, "R12.b", m.func.key("sequence"), "iterates ode.sorted_assignments(remove_unused=remove_unused)", f"{m.func.name} iterates {norm(m.seq)}", m.func.where(m.loop))
    sch = cgc.methods["scheme"]
    fparam = sch.params[1]
    bcall = [c for c in ast.walk(sch.node) if isinstance(c, ast.Call) and isinstance(c.func, ast.Name) and c.func.id == fparam]
    ok = bool(bcall) and call_kw(bcall[0], "remove_unused") is not None and norm(call_kw(bcall[0], "remove_unused")) == "self.remove_unused"
    ctx.check(ok, "R12.b", sch.key("forward"), "scheme builder receives remove_unused=self.remove_unused", "CodeGenerator.scheme does not pass remove_unused=self.remove_unused to the builder", sch.where())

    # ---- R12.c same layout -----------------------------------------------------------------------
    ctx.rule("R12.c", "state slot layout is the same with and without removal (STATE slot family, remove_unused is a post-sort filter over intermediates)", floor=10)
    slot_families(ctx, "R12.c", only_family="STATE", check_guard=False)
