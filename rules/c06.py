"""C06 - generalized Rush-Larsen formula, guarded (structural clauses; numerics not decided)."""

from __future__ import annotations

import ast

from sa import schemes_model as S
from sa import te
from sa.core import Ctx
from sa.sm import call_kw, dotted, find_calls, norm

from . import common
from .c05 import check_counter, check_first_def, check_single_exit


def check_rl_rows(ctx: Ctx, rule: str, m: S.SchemeModel, rows, label: str):
    """Rows on which the Rush-Larsen update applies (derivative, [stiff], diff not identically zero)."""
    f = m.func
    for r in rows:
        lits = dict(S.normalise_lits(r.lits))
        key = f.key(f"{label}::{sorted(S.normalise_lits(r.lits))}")
        if r.store is None:
            ctx.fail(rule, key, f"{f.name} path [{r.raw_pred}] stores nothing for a state derivative", f.where(m.loop))
            continue
        if lits.get("DIFF_ZERO") is True:
            exp, nm = S.EULER, "Euler fallback (diff identically zero)"
        elif lits.get("NEED_GUARD") is True:
            exp, nm = S.GRL_GUARDED, "guarded RL: STATE + ITE(|LIN| > DELTA, DERIV/LIN*(exp(LIN*DT)-1), DT*DERIV)"
        elif lits.get("NEED_GUARD") is False:
            exp, nm = S.GRL_PLAIN, "unguarded RL: STATE + DERIV/LIN*(exp(LIN*DT)-1)"
        else:
            ctx.fail(rule, key, f"{f.name} path [{r.raw_pred}]: Rush-Larsen path is not conditioned on the zero-division check (fraction_numerator_is_nonzero of the own-state derivative)", f.where(r.store[2]))
            continue
        ctx.check(
            r.store[1] == exp,
            rule,
            key,
            nm,
            f"{f.name} path [{r.raw_pred}] stores {te.show(r.store[1])}; expected {nm}",
            f.where(r.store[2]),
            trace=[f"path predicate: {r.raw_pred}", f"found   : {te.show(r.store[1])}", f"expected: {te.show(exp)}"],
        )
        if exp is not S.EULER:
            # LIN must be printed, as diff(EXPR, STATE), before the store
            lin_def = [e for e in r.emissions[: r.store[3]] if e[0] == S.LIN]
            ctx.check(
                bool(lin_def) and lin_def[0][1] == S.DIFF and r.lin_defined_before_use is not False,
                rule,
                f.key(f"{label}-lin::{sorted(S.normalise_lits(r.lits))}"),
                "X_linearized := X.expr.diff(X.state.symbol) is printed before it is used",
                f"{f.name} path [{r.raw_pred}]: the linearisation symbol is "
                + ("not printed before the store" if not lin_def else f"defined as {te.show(lin_def[0][1])}, not as the derivative of the state's own expression w.r.t. its own state"),
                f.where(r.store[2]),
            )


def check_elision(ctx: Ctx, rule: str = "R06.b"):
    """R06.b: fraction_numerator_is_nonzero answers True only for a**-1 and products of accepted factors."""
    f = ctx.sm.func("schemes.py", "fraction_numerator_is_nonzero")
    p = f.params[0]
    rets = [n for n in ast.walk(f.node) if isinstance(n, ast.Return)]
    ctx.require(rets, "fraction_numerator_is_nonzero has no return statements")
    n_true = 0
    for r in rets:
        v = r.value
        chain = common.cond_chain(f.node, r) or []
        chain_txt = [(c.replace("sympy.", "").replace("sp.", ""), pol) for c, pol in chain]
        is_true = isinstance(v, ast.Constant) and v.value is True
        is_false = isinstance(v, ast.Constant) and v.value is False
        key = f.key(f"return::{norm(r)}::{[c for c, _ in chain_txt]}")
        if is_false:
            ctx.ok(rule, key, "conservative answer (guard kept)", f.where(r))
            continue
        if not is_true:
            ctx.fail(rule, key, f"returns {norm(v) if v is not None else None}: neither True nor False; the elision decision must be a definite boolean", f.where(r))
            continue
        n_true += 1
        in_pow = (f"isinstance({p}, Pow)", True) in chain_txt
        in_mul = (f"isinstance({p}, Mul)", True) in chain_txt and (f"isinstance({p}, Pow)", False) in chain_txt or (f"isinstance({p}, Mul)", True) in chain_txt
        if in_pow:
            good = any(("is S.NegativeOne" in c or "== -1" in c or "is NegativeOne" in c) and pol for c, pol in chain_txt)
            ctx.check(good, rule, key, "True for a**-1 only", f"returns True for a Pow without requiring the exponent to be -1 (conditions: {chain_txt})", f.where(r))
        elif in_mul:
            # either "no potentially-zero factor" or the else branch of the recursion loop
            txts = " ".join(c for c, _ in chain_txt)
            good = ("len(potentially_nonzero_args) == 0" in txts) or any(c.startswith("loopelse:") for c, _ in chain_txt)
            ctx.check(good, rule, key, "True for a product whose factors are all accepted", f"returns True inside the Mul branch under unexpected conditions {chain_txt}", f.where(r))
        else:
            ctx.fail(rule, key, f"returns True for an expression that is neither a**-1 nor a product (conditions: {chain_txt}); the zero-division guard would be dropped for it", f.where(r))
    ctx.check(n_true >= 1, rule, f.key("has-true"), "elision is possible", "fraction_numerator_is_nonzero never returns True", f.where())
    # classification of constant factors and the recursion
    tests = [norm(n.test).replace("sympy.", "") for n in ast.walk(f.node) if isinstance(n, ast.If)]
    cls_ok = any("free_symbols" in t and "is_nonzero" in t and " and " in t for t in tests)
    ctx.check(cls_ok, rule, f.key("certainly-nonzero-test"), "a factor is certainly non-zero only if it has no free symbols AND is_nonzero", f"the test that classifies a factor as certainly non-zero is not `len(e.free_symbols) == 0 and e.is_nonzero` (tests: {tests})", f.where())
    rec_ok = any(t.replace(" ", "") .startswith(f"not{f.name}(") for t in tests)
    ctx.check(rec_ok, rule, f.key("recursion"), "every remaining factor must itself be accepted", "no `if not fraction_numerator_is_nonzero(e): return False` test over the remaining factors", f.where())
    # last statement: conservative default
    last = f.node.body[-1]
    dflt = None
    if isinstance(last, ast.If):
        tail = last
        while isinstance(tail, ast.If) and tail.orelse:
            nxt = tail.orelse
            if len(nxt) == 1 and isinstance(nxt[0], ast.If):
                tail = nxt[0]
            else:
                dflt = nxt[-1]
                break
    elif isinstance(last, ast.Return):
        dflt = last
    ctx.check(isinstance(dflt, ast.Return) and isinstance(dflt.value, ast.Constant) and dflt.value.value is False, rule, f.key("default"), "anything else: False (guard kept)", "the default answer of fraction_numerator_is_nonzero is not `return False`", f.where())


def check_delta_flow(ctx: Ctx, rule: str):
    sm = ctx.sm
    add = sm.func("cli/utils.py", "add_schemes")
    _, _table = common.alias_table(ctx)
    common.check_scheme_kwargs(ctx, rule, "delta", only_builders={_table.get("generalized_rush_larsen", "generalized_rush_larsen")})
    # and the kwargs reach codegen.scheme(...)
    sc = [c for c in find_calls(add.node, "codegen.scheme")]
    sc = sc or [c for c in ast.walk(add.node) if isinstance(c, ast.Call) and isinstance(c.func, ast.Attribute) and c.func.attr == "scheme"]
    ctx.check(bool(sc) and any(k.arg is None for k in sc[0].keywords), rule, add.key("kwargs-forwarded"), "**kwargs reach codegen.scheme", "add_schemes does not forward the per-scheme keyword arguments (**...) to codegen.scheme", add.where())
    cg = sm.func("codegen/base.py", "CodeGenerator.scheme")
    fparam = cg.params[1]
    bcall = [c for c in ast.walk(cg.node) if isinstance(c, ast.Call) and isinstance(c.func, ast.Name) and c.func.id == fparam]
    ctx.check(bool(bcall) and any(k.arg is None and norm(k.value) == "kwargs" for k in bcall[0].keywords), rule, cg.key("kwargs-forwarded"), "**kwargs reach the scheme builder", "CodeGenerator.scheme does not forward **kwargs to the builder", cg.where())
    for short, qn in (("cli/gotran2py.py", "get_code"), ("cli/gotran2c.py", "get_code")):
        g = sm.func(short, qn)
        calls = [c for c in find_calls(g.node, "add_schemes")]
        ctx.check(bool(calls) and common.forwards(calls[0], "delta", "delta"), rule, g.key("delta"), "get_code forwards delta", f"{short}::get_code does not forward delta to add_schemes", g.where())


def run(ctx: Ctx):
    models = common.scheme_models(ctx)
    gs, table = common.alias_table(ctx)
    ctx.assume("convergence / exactness / finiteness statements are numerical consequences and are NOT decided")
    ctx.assume("sympy's diff and its printing of the result are trusted")
    ctx.rule("R06.a", "generalized Rush-Larsen path table: Euler when the own-state derivative is identically zero, guarded RL when the zero-division check is needed, plain RL otherwise; LIN defined before use", floor=6)
    name = table.get("generalized_rush_larsen")
    if name not in models:
        ctx.fail("R06.a", gs.key("alias::generalized_rush_larsen"), f"get_scheme maps 'generalized_rush_larsen' to {name!r}, which is not a scheme builder", gs.where())
        name = "generalized_rush_larsen"
    m = models[name]
    check_first_def(ctx, "R06.a", m)
    check_counter(ctx, "R06.a", m)
    check_single_exit(ctx, "R06.a", m)
    rows = [r for r in m.rows if dict(S.normalise_lits(r.lits)).get("ISDERIV")]
    for r in rows:
        lits = dict(S.normalise_lits(r.lits))
        if "DIFF_ZERO" not in lits:
            ctx.fail("R06.a", m.func.key(f"no-diff-test::{sorted(lits)}"), f"{m.func.name} path [{r.raw_pred}] does not test whether the own-state derivative is identically zero", m.func.where(m.loop))
    check_rl_rows(ctx, "R06.a", m, [r for r in rows if "DIFF_ZERO" in dict(S.normalise_lits(r.lits))], "grl")
    covered = {(dict(S.normalise_lits(r.lits)).get("DIFF_ZERO"), dict(S.normalise_lits(r.lits)).get("NEED_GUARD")) for r in rows}
    for need in ((True, None), (False, True), (False, False)):
        ctx.check(need in covered, "R06.a", m.func.key(f"case::{need}"), f"case DIFF_ZERO={need[0]}, NEED_GUARD={need[1]} present", f"{m.func.name}: no path for DIFF_ZERO={need[0]}, NEED_GUARD={need[1]}", m.func.where())

    ctx.rule("R06.b", "the guard is elided only for a**-1 and for products of non-zero constants and accepted factors", floor=6)
    check_elision(ctx)

    ctx.rule("R06.c", "the delta option reaches the guard from get_code through add_schemes", floor=5)
    ctx.check("delta" in m.func.params, "R06.c", m.func.key("delta-param"), "builder has a delta parameter", f"{m.func.name} has no delta parameter", m.func.where())
    check_delta_flow(ctx, "R06.c")
