"""C06 - generalized Rush-Larsen formula, guarded (structural clauses; numerics not decided)."""

from __future__ import annotations

import ast

from sa import schemes_model as S
from sa import te
from sa.core import Ctx
from sa.sm import call_kw, dotted, find_calls, norm

from . import common
from .c05 import check_counter, check_first_def, check_single_exit


def check_rl_rows(ctx: Ctx, rule: str, m: S.SchemeModel, rows, label: str):
    """Rows on which the Rush-Larsen update applies (derivative, [stiff], diff not identically zero)."""
    f = m.func
    for r in rows:
        lits = dict(S.normalise_lits(r.lits))
        key = f.key(f"{label}::{sorted(S.normalise_lits(r.lits))}")
        if r.store is None:
            ctx.fail(rule, key, f"{f.name} path [{r.raw_pred}] stores nothing for a state derivative", f.where(m.loop))
            continue
        if lits.get("DIFF_ZERO") is True:
            exp, nm = S.EULER, "Euler fallback (diff identically zero)"
        elif lits.get("NEED_GUARD") is True:
            exp, nm = S.GRL_GUARDED, "guarded RL: STATE + ITE(|LIN| > DELTA, DERIV/LIN*(exp(LIN*DT)-1), DT*DERIV)"
        elif lits.get("NEED_GUARD") is False:
            exp, nm = S.GRL_PLAIN, "unguarded RL: STATE + DERIV/LIN*(exp(LIN*DT)-1)"
        else:
            ctx.fail(rule, key, f"{f.name} path [{r.raw_pred}]: Rush-Larsen path is not conditioned on the zero-division check (fraction_numerator_is_nonzero of the own-state derivative)", f.where(r.store[2]))
            continue
        ctx.check(
            r.store[1] == exp,
            rule,
            key,
            nm,
            f"{f.name} path [{r.raw_pred}] stores {te.show(r.store[1])}; expected {nm}",
            f.where(r.store[2]),
            trace=[f"path predicate: {r.raw_pred}", f"found   : {te.show(r.store[1])}", f"expected: {te.show(exp)}"],
        )
        if exp is not S.EULER:
            # LIN must be printed, as diff(EXPR, STATE), before the store
            lin_def = [e for e in r.emissions[: r.store[3]] if e[0] == S.LIN]
            ctx.check(
                bool(lin_def) and lin_def[0][1] == S.DIFF and r.lin_defined_before_use is not False,
                rule,
                f.key(f"{label}-lin::{sorted(S.normalise_lits(r.lits))}"),
                "X_linearized := X.expr.diff(X.state.symbol) is printed before it is used",
                f"{f.name} path [{r.raw_pred}]: the linearisation symbol is "
                + ("not printed before the store" if not lin_def else f"defined as {te.show(lin_def[0][1])}, not as the derivative of the state's own expression w.r.t. its own state"),
                f.where(r.store[2]),
            )


def check_elision(ctx: Ctx, rule: str = "R06.b"):
    """R06.b: fraction_numerator_is_nonzero answers True only for a**-1 and for products whose factors are all either
    constants known to be non-zero or themselves accepted.  Judged on the value the function computes (sa.av:
    early returns, partition loops, for/else and comprehensions give the same term), specialised for the three
    kinds of argument."""
    import re

    from sa import av

    from . import util

    f = ctx.sm.func("schemes.py", "fraction_numerator_is_nonzero")
    p = f.params[0]
    v = util.value_of(ctx, f)
    if av.has_unk(v):
        ctx.undecided(rule, f.key("decision"), f"the decision procedure is not understood ({av.find_all(v, 'unk')[0][1]})", f.where())
        return
    isa = lambda cls: ("call", "isinstance", (("sym", p), ("sym", cls)), ())  # noqa: E731
    P, M = isa("sympy.Pow"), isa("sympy.Mul")
    if not (av.find_all(v, "call") and P in av.find_all(v, "call") and M in av.find_all(v, "call")):
        ctx.undecided(rule, f.key("decision"), f"the function does not distinguish sympy.Pow / sympy.Mul arguments by isinstance ({av.show(v)[:120]})", f.where())
        return
    dflt = av.subst(v, {P: av.C(False), M: av.C(False)})
    ctx.check(dflt == av.C(False), rule, f.key("default"), "anything that is neither a power nor a product: False (guard kept)", f"fraction_numerator_is_nonzero answers {av.show(dflt)[:100]} for an expression that is neither a**-1 nor a product; the zero-division guard would be dropped for it", f.where())
    pw = av.subst(v, {P: av.C(True)})
    okp = re.fullmatch(r"\(" + re.escape(p) + r"\.(args\[1\]|exp) (is|==) (sympy\.S\.NegativeOne|-1)\)", av.show(pw)) is not None
    ctx.check(okp, rule, f.key("power"), "a power is accepted only when the exponent is -1", f"for a Pow the answer is {av.show(pw)[:120]}, not `exponent is -1`: other powers (x**2 is zero at x = 0) would lose their guard", f.where())
    ml = av.subst(v, {P: av.C(False), M: av.C(True)})
    # leaves of the answer for a product: all(rec(x) for x in <factors that are not (constant and non-zero)>),
    # True only when no factor remains, False
    from .c03 import _branches

    nz_attr = "is_nonzero"
    verdicts = []

    def filter_ok(seq):
        """seq is expr.args or expr.args filtered by not(constant and non-zero) -> (ok, why)"""
        seq = av._unwrap_seq(seq)
        if seq == ("sym", f"{p}.args"):
            return True, ""
        if seq[0] == "comp" and seq[2] == ("sym", f"{p}.args") and seq[3] == (("bv", seq[1]),) and len(seq[4]) == 1:
            k = seq[4][0]
            bv = ("bv", seq[1])
            nz = ("attr", bv, nz_attr)
            const_tests = [("not", ("attr", bv, "free_symbols")), ("attr", bv, "is_number"), ("attr", bv, "is_Number"), ("attr", bv, "is_constant")]
            if k[0] == "not" and k[1][0] == "bool" and k[1][1] == "and" and set(k[1][2]) in [{ct, nz} for ct in const_tests]:
                return True, ""
            # the same test written as a conditional: (False if <has free symbols> else is_nonzero)
            if k[0] == "not" and k[1][0] == "if" and k[1][2] == av.C(False) and k[1][3] == nz and av.mk_not(k[1][1]) in const_tests:
                return True, ""
            return False, f"a factor is skipped unless `{av.show(k)}`; it may only be skipped when it has no free symbols AND is_nonzero"
        return None, f"the remaining factors are {av.show(seq)[:100]}"

    for conds, x in _branches(ml):
        if x == av.C(False):
            continue
        if x[0] == "call" and x[1] in ("all", "any") and len(x[2]) == 1 and x[2][0][0] == "comp":
            outer = x[2][0]
            rec_ok = len(outer[3]) == 1 and outer[3][0] == ("call", f.name, (("bv", outer[1]),), ())
            if x[1] == "any" and rec_ok:
                verdicts.append((False, f"a product is accepted as soon as *any* remaining factor is accepted ({av.show(x)[:100]}); every one of them must be"))
                continue
            if not rec_ok:
                verdicts.append((None, f"the remaining factors are not each checked by {f.name} itself ({av.show(x)[:100]})"))
                continue
            # the filter may be written on the sequence (<x for x in args if keep(x)>) or on the comprehension itself
            okf, why_ = filter_ok(("comp", outer[1], outer[2], (("bv", outer[1]),), outer[4]) if outer[4] else outer[2])
            verdicts.append((okf, why_))
            continue
        if x == av.C(True):
            empties = [c for c in conds if c[0] == "not" and filter_ok(c[1])[0] is not None]
            if empties:
                okf, why_ = filter_ok(empties[0][1])
                verdicts.append((okf, why_))
            else:
                verdicts.append((False, f"a product is accepted (True) under {[av.show(c) for c in conds]} without checking its factors"))
            continue
        verdicts.append((None, f"answer {av.show(x)[:100]} under {[av.show(c)[:60] for c in conds]}"))
    bad = [w for ok_, w in verdicts if ok_ is False]
    unknown = [w for ok_, w in verdicts if ok_ is None]
    if bad:
        ctx.fail(rule, f.key("product"), f"fraction_numerator_is_nonzero: {bad[0]}; a product with a factor that can vanish would lose its zero-division guard", f.where())
    elif unknown:
        ctx.undecided(rule, f.key("product"), f"the answer for a product is not understood: {unknown[0]}", f.where())
    else:
        ctx.ok(rule, f.key("product"), "a product is accepted when every factor that is not a non-zero constant is itself accepted", f.where())
    ctx.check(av.find_all(v, "c") and any(x in (P, M) for x in av.find_all(v, "call")) and (pw != av.C(False) or ml != av.C(False)), rule, f.key("has-true"), "elision is possible", "fraction_numerator_is_nonzero never returns True", f.where())


def check_delta_flow(ctx: Ctx, rule: str):
    sm = ctx.sm
    add = sm.func("cli/utils.py", "add_schemes")
    _, _table = common.alias_table(ctx)
    common.check_scheme_kwargs(ctx, rule, "delta", only_builders={_table.get("generalized_rush_larsen", "generalized_rush_larsen")})
    # and the kwargs reach codegen.scheme(...)
    sc = [c for c in find_calls(add.node, "codegen.scheme")]
    sc = sc or [c for c in ast.walk(add.node) if isinstance(c, ast.Call) and isinstance(c.func, ast.Attribute) and c.func.attr == "scheme"]
    ctx.check(bool(sc) and any(k.arg is None for k in sc[0].keywords), rule, add.key("kwargs-forwarded"), "**kwargs reach codegen.scheme", "add_schemes does not forward the per-scheme keyword arguments (**...) to codegen.scheme", add.where())
    cg, bcall, cgv = common.scheme_builder_call(ctx)
    if bcall is None:
        ctx.undecided(rule, cg.key("kwargs-forwarded"), "CodeGenerator.scheme: the call of the scheme builder is not found in what the method computes", cg.where())
    else:
        kws = bcall[3] if bcall[0] == "call" else bcall[3]
        ctx.check(any(k == "**" and x[0] == "sym" and x[1].lstrip("*") == "kwargs" for k, x in kws), rule, cg.key("kwargs-forwarded"), "**kwargs reach the scheme builder", "CodeGenerator.scheme does not forward **kwargs to the builder", cg.where())
    from .c18 import check_get_code_forwards

    check_get_code_forwards(ctx, rule, "delta")


def run(ctx: Ctx):
    models = common.scheme_models(ctx)
    gs, table = common.alias_table(ctx)
    ctx.assume("convergence / exactness / finiteness statements are numerical consequences and are NOT decided")
    ctx.assume("sympy's diff and its printing of the result are trusted")
    ctx.rule("R06.a", "generalized Rush-Larsen path table: Euler when the own-state derivative is identically zero, guarded RL when the zero-division check is needed, plain RL otherwise; LIN defined before use", floor=6)
    name = table.get("generalized_rush_larsen")
    errs = ctx.__dict__.get("_scheme_model_errors", {})
    if name in errs:
        common.check_single_pass(ctx, "R06.a", name)
        ctx.undecided("R06.a", gs.key("path-table"), f"the path table of {name} is not built: {errs[name][:120]}")
        ctx.rule("R06.b", "the zero-division guard is elided only for a**-1 and products of accepted factors (cheap syntactic check, conservative)", floor=4)
        check_elision(ctx, "R06.b")
        return
    if name not in models:
        ctx.fail("R06.a", gs.key("alias::generalized_rush_larsen"), f"get_scheme maps 'generalized_rush_larsen' to {name!r}, which is not a scheme builder", gs.where())
        name = "generalized_rush_larsen"
    m = models[name]
    common.check_single_pass(ctx, "R06.a", name)
    check_first_def(ctx, "R06.a", m)
    check_counter(ctx, "R06.a", m)
    check_single_exit(ctx, "R06.a", m)
    rows = [r for r in m.rows if dict(S.normalise_lits(r.lits)).get("ISDERIV")]
    for r in rows:
        lits = dict(S.normalise_lits(r.lits))
        if "DIFF_ZERO" not in lits:
            ctx.fail("R06.a", m.func.key(f"no-diff-test::{sorted(lits)}"), f"{m.func.name} path [{r.raw_pred}] does not test whether the own-state derivative is identically zero", m.func.where(m.loop))
    check_rl_rows(ctx, "R06.a", m, [r for r in rows if "DIFF_ZERO" in dict(S.normalise_lits(r.lits))], "grl")
    covered = {(dict(S.normalise_lits(r.lits)).get("DIFF_ZERO"), dict(S.normalise_lits(r.lits)).get("NEED_GUARD")) for r in rows}
    for need in ((True, None), (False, True), (False, False)):
        ctx.check(need in covered, "R06.a", m.func.key(f"case::{need}"), f"case DIFF_ZERO={need[0]}, NEED_GUARD={need[1]} present", f"{m.func.name}: no path for DIFF_ZERO={need[0]}, NEED_GUARD={need[1]}", m.func.where())

    # the guard is built with sympytools.Conditional(abs(LIN) > delta, RL, Euler): what that helper returns - also for a
    # condition sympy has already decided (delta = oo, a constant linearisation) - is part of the formula
    from .c01 import conditional_builder

    conditional_builder(ctx, "R06.a")

    ctx.rule("R06.b", "the guard is elided only for a**-1 and for products of non-zero constants and accepted factors", floor=6)
    check_elision(ctx)

    ctx.rule("R06.d", "sign(), which differentiation of abs() puts into the linearisation, is printed as a function that is 0 at 0 by every backend", floor=2)
    from . import printers

    printers.check_sign_printing(ctx, "R06.d")

    ctx.rule("R06.c", "the delta option reaches the guard from get_code through add_schemes", floor=5)
    ctx.check("delta" in m.func.params, "R06.c", m.func.key("delta-param"), "builder has a delta parameter", f"{m.func.name} has no delta parameter", m.func.where())
    check_delta_flow(ctx, "R06.c")
    from .c18 import check_config_keys

    check_config_keys(ctx, "R06.c", only_keys={"delta"})
    # ... and the file-based entry points (`main`) hand the delta they were given to get_code
    from .c18 import check_value_forwarding, get_code_calls

    for short_ in ("cli/gotran2py.py", "cli/gotran2c.py"):
        mainf_, gcf_ = ctx.sm.func(short_, "main"), ctx.sm.func(short_, "get_code")
        gvals_ = get_code_calls(ctx, short_)
        if gvals_:
            check_value_forwarding(ctx, "R06.c", mainf_, gvals_, gcf_, None, skip=set(gcf_.params) - {"delta", "scheme"})
    # ... and every command that accepts --delta hands it to the main it dispatches to (each branch of `convert`)
    from .c18 import dispatched_calls

    for _cname, (cmd_, calls_, _log, _err) in dispatched_calls(ctx).items():
        by_node_: dict[int, list] = {}
        for val_, mm_, node_ in calls_ or []:
            if "delta" in mm_.params:
                by_node_.setdefault(id(node_), []).append((val_, mm_))
        for group_ in by_node_.values():
            mm_ = group_[0][1]
            check_value_forwarding(ctx, "R06.c", cmd_, [v for v, _m in group_], mm_, None, skip=set(mm_.params) - {"delta", "scheme"})
    from .c12 import check_generator_purity

    # delta arrives as a keyword of CodeGenerator.scheme: a result remembered from an earlier call would carry the
    # earlier delta
    check_generator_purity(ctx, "R06.c", only={"scheme"})
