"""Micro-mutations for the liveness self-test (thorough tier).  One entry per rule instance:
``old`` must occur in the current source of ``file``; the mutated text is analysed in memory.
"""

M = lambda id, file, old, new, rule, **kw: dict(id=id, file=file, old=old, new=new, rule=rule, **kw)  # noqa: E731

EULER_STORE = """                printer(
                    values[i],
                    x.state.symbol + dt * x.symbol,
                )
            )

            i += 1
"""

MUTANTS: dict[str, list[dict]] = {
    "C05": [
        M("euler-minus", "schemes.py", "x.state.symbol + dt * x.symbol,\n                )\n            )\n\n            i += 1", "x.state.symbol - dt * x.symbol,\n                )\n            )\n\n            i += 1", "R05.a"),
        M("euler-swapped", "schemes.py", "x.state.symbol + dt * x.symbol,\n                )\n            )\n\n            i += 1", "x.symbol + dt * x.state.symbol,\n                )\n            )\n\n            i += 1", "R05.a"),
        M("euler-no-dt", "schemes.py", "x.state.symbol + dt * x.symbol,\n                )\n            )\n\n            i += 1", "x.state.symbol + x.symbol,\n                )\n            )\n\n            i += 1", "R05.a"),
        M("euler-counter-outside", "schemes.py", "            )\n\n            i += 1\n\n    return eqs", "            )\n\n        i += 1\n\n    return eqs", "R05.a"),
        M("alias-euler-to-hybrid", "schemes.py", '["forward_rush_larsen", "rush_larsen", "hybrid_rush_larsen"]', '["forward_rush_larsen", "rush_larsen", "hybrid_rush_larsen", "forward_euler"]', "R05.b"),
        M("alias-wrong-family", "schemes.py", '["forward_generalized_rush_larsen", "generalized_rush_larsen"]', '["forward_generalized_rush_larsen", "generalized_rush_larsen", "forward_euler"]', "R05.b"),
        M("rename-const", "schemes.py", "func.__code__.replace(co_name=scheme)", "func.__code__.replace(co_name=func.__name__)", "R05.b"),
        M("alias-states-as-result", "codegen/python.py", 'values_type="numpy.zeros_like(states, dtype=numpy.float64)",\n        )\n\n    def _scheme_arguments', 'values_type="states",\n        )\n\n    def _scheme_arguments', "R05.c"),
        M("c-nonconst", "codegen/c.py", '"p": "const double *__restrict parameters",\n        }\n        argument_list = [argument_dict[v] for v in value] + ["double* values"]\n        states = sympy.IndexedBase("states", shape=(self.ode.num_states,))\n        parameters = sympy.IndexedBase("parameters", shape=(self.ode.num_parameters,))\n        values = sympy.IndexedBase("values", shape=(self.ode.num_states,))\n\n        return Func(\n            arguments=argument_list,\n            states=states,\n            parameters=parameters,\n            values=values,\n            values_type="",\n        )\n\n    def _scheme', '"p": "double *__restrict parameters",\n        }\n        argument_list = [argument_dict[v] for v in value] + ["double* values"]\n        states = sympy.IndexedBase("states", shape=(self.ode.num_states,))\n        parameters = sympy.IndexedBase("parameters", shape=(self.ode.num_parameters,))\n        values = sympy.IndexedBase("values", shape=(self.ode.num_states,))\n\n        return Func(\n            arguments=argument_list,\n            states=states,\n            parameters=parameters,\n            values=values,\n            values_type="",\n        )\n\n    def _scheme', "R05.c"),
        M("dt-symbol-renamed", "codegen/base.py", 'dt = sympy.Symbol("dt")', 'dt = sympy.Symbol("h")', "R05.d"),
    ],
    "C06": [
        M("grl-diff-wrt-derivative", "schemes.py", "        expr_diff = x.expr.diff(x.state.symbol)\n\n        if expr_diff.is_zero:", "        expr_diff = x.expr.diff(x.symbol)\n\n        if expr_diff.is_zero:", "R06.a"),
        M("grl-guard-flipped", "schemes.py", "                abs(linearized) > delta,\n                RL_term,\n                dt * x.symbol,\n            )\n        eqs.append(\n            printer(\n                values[i],\n                x.state.symbol + RL_term,\n            )\n        )\n        i += 1\n    return eqs", "                abs(linearized) < delta,\n                RL_term,\n                dt * x.symbol,\n            )\n        eqs.append(\n            printer(\n                values[i],\n                x.state.symbol + RL_term,\n            )\n        )\n        i += 1\n    return eqs", "R06.a"),
        M("grl-const-delta", "schemes.py", "                abs(linearized) > delta,\n                RL_term,\n                dt * x.symbol,\n            )\n        eqs.append(\n            printer(\n                values[i],\n                x.state.symbol + RL_term,\n            )\n        )\n        i += 1\n    return eqs", "                abs(linearized) > 1e-8,\n                RL_term,\n                dt * x.symbol,\n            )\n        eqs.append(\n            printer(\n                values[i],\n                x.state.symbol + RL_term,\n            )\n        )\n        i += 1\n    return eqs", "R06.a"),
        M("grl-exp-sign", "schemes.py", "        RL_term = x.symbol / linearized * (sympy.exp(linearized * dt) - 1)\n        if need_zero_div_check:\n            RL_term = sympytools.Conditional(\n                abs(linearized) > delta,\n                RL_term,\n                dt * x.symbol,\n            )\n        eqs.append(\n            printer(\n                values[i],\n                x.state.symbol + RL_term,\n            )\n        )\n        i += 1\n    return eqs", "        RL_term = x.symbol / linearized * (sympy.exp(linearized * dt) + 1)\n        if need_zero_div_check:\n            RL_term = sympytools.Conditional(\n                abs(linearized) > delta,\n                RL_term,\n                dt * x.symbol,\n            )\n        eqs.append(\n            printer(\n                values[i],\n                x.state.symbol + RL_term,\n            )\n        )\n        i += 1\n    return eqs", "R06.a"),
        M("elision-accepts-add", "schemes.py", "    else:\n        return False\n\n\ndef explicit_euler", "    elif isinstance(expr, sympy.Add):\n        return True\n    else:\n        return False\n\n\ndef explicit_euler", "R06.b"),
        M("elision-any-pow", "schemes.py", "        if b is sympy.S.NegativeOne:\n            return True\n        else:\n            # we won't do any further checks\n            return False", "        if b is sympy.S.NegativeOne:\n            return True\n        else:\n            # we won't do any further checks\n            return True", "R06.b"),
        M("elision-drops-nonzero", "schemes.py", "if len(e.free_symbols) == 0 and e.is_nonzero:", "if len(e.free_symbols) == 0:", "R06.b"),
        M("delta-not-passed", "cli/utils.py", 'kwargs["delta"] = delta', 'kwargs["delta"] = 1e-8', "R06.c"),
        M("delta-dropped-in-get_code", "cli/gotran2py.py", "        scheme=scheme,\n        delta=delta,\n        stiff_states=stiff_states,\n    )\n    code = codegen._format", "        scheme=scheme,\n        stiff_states=stiff_states,\n    )\n    code = codegen._format", "R06.c"),
    ],
    "C07": [
        M("hybrid-and-instead-of-or", "schemes.py", "if not state_is_stiff or expr_diff.is_zero:", "if not state_is_stiff and expr_diff.is_zero:", "R07.a"),
        M("hybrid-derivative-name", "schemes.py", "state_is_stiff = x.state.name in stiff_states_set", "state_is_stiff = x.name in stiff_states_set", "R07.a"),
        M("hybrid-inverted", "schemes.py", "if not state_is_stiff or expr_diff.is_zero:", "if state_is_stiff or expr_diff.is_zero:", "R07.a"),
        M("hybrid-rl-drift", "schemes.py", "        RL_term = x.symbol / linearized * (sympy.exp(linearized * dt) - 1)\n        if need_zero_div_check:\n            RL_term = sympytools.Conditional(\n                abs(linearized) > delta,\n                RL_term,\n                dt * x.symbol,\n            )\n        eqs.append(\n            printer(\n                values[i],\n                x.state.symbol + RL_term,\n            )\n        )\n        i += 1\n    logger.debug(", "        RL_term = x.symbol / linearized * (sympy.exp(linearized * dt) - 1)\n        if need_zero_div_check:\n            RL_term = sympytools.Conditional(\n                abs(linearized) > delta,\n                RL_term,\n                x.symbol,\n            )\n        eqs.append(\n            printer(\n                values[i],\n                x.state.symbol + RL_term,\n            )\n        )\n        i += 1\n    logger.debug(", "R07.a"),
        M("hybrid-euler-drift", "schemes.py", "            # Use forward Euler\n            eqs.append(\n                printer(\n                    values[i],\n                    x.state.symbol + dt * x.symbol,\n                )\n            )\n            i += 1\n            continue\n\n        found_stiff_states_set", "            # Use forward Euler\n            eqs.append(\n                printer(\n                    values[i],\n                    x.state.symbol + dt * x.expr.diff(x.state.symbol),\n                )\n            )\n            i += 1\n            continue\n\n        found_stiff_states_set", "R07.a"),
        M("stiff-for-all-rl", "cli/utils.py", 'if s.value == "hybrid_rush_larsen":', 'if "euler" in s.value:', "R07.b"),
        M("stiff-dropped-c", "cli/gotran2c.py", "        delta=delta,\n        stiff_states=stiff_states,\n    )\n\n    code = codegen._format", "        delta=delta,\n    )\n\n    code = codegen._format", "R07.b"),
    ],
}

MUTANTS["C04"] = [
    M("state-index-name-sorted", "codegen/base.py", "data={s.name: i for i, s in enumerate(self.ode.sorted_states())}", "data={s.name: i for i, s in enumerate(self.ode.states)}", "R04.a"),
    M("monitor-index-remove-unused", "codegen/base.py", "        for x in self.ode.sorted_assignments(remove_unused=False):\n            if isinstance(x, (atoms.Intermediate, atoms.StateDerivative)):\n                data[x.name] = index", "        for x in self.ode.sorted_assignments(remove_unused=self.remove_unused):\n            if isinstance(x, (atoms.Intermediate, atoms.StateDerivative)):\n                data[x.name] = index", "R04.a"),
    M("unpack-filter-before-enumerate", "codegen/base.py", "for i, state in enumerate(self.ode.sorted_states())\n            if not remove_unused or self._condition(state.name)", "for i, state in enumerate(s for s in self.ode.sorted_states() if not remove_unused or self._condition(s.name))", "R04.a"),
    M("rhs-counter-outside-guard", "codegen/base.py", "                values_lst.append(self._doprint(values_idx[index], x.symbol))\n                index += 1\n\n        values = \"\\n\".join(values_lst)\n        code = self.template.method(\n            name=\"rhs\"", "                values_lst.append(self._doprint(values_idx[index], x.symbol))\n            index += 1\n\n        values = \"\\n\".join(values_lst)\n        code = self.template.method(\n            name=\"rhs\"", "R04.a"),
    M("sort-reduced-set", "ode.py", "        names = sort_assignments(\n            assignments=self.intermediates + self.state_derivatives,", "        intermediates = self.intermediates\n        if remove_unused:\n            intermediates = tuple([a for a in intermediates if a.name in self.dependents()])\n        names = sort_assignments(\n            assignments=intermediates + self.state_derivatives,", "R04.a"),
    M("init-names-from-name-sorted", "codegen/base.py", "state_names=[s.name for s in self.ode.sorted_states()],", "state_names=[s.name for s in self.ode.states],", "R04.a"),
    M("states-matrix-name-sorted", "sympytools.py", "sympy.Matrix([state.symbol for state in ode.sorted_states()])", "sympy.Matrix([state.symbol for state in ode.states])", "R04.a"),
    M("index-dict-swapped", "codegen/base.py", "data={s.name: i for i, s in enumerate(self.ode.parameters)}", "data={i: s.name for i, s in enumerate(self.ode.parameters)}", "R04.a2"),
    M("state-index-calls-parameter-template", "codegen/base.py", "        code = self.template.state_index(\n", "        code = self.template.parameter_index(\n", "*"),
    M("c-unknown-returns-0", "templates/c.py", 'indent("return -1;", "    ")', 'indent("return 0;", "    ")', "R04.b"),
    M("py-index-get-default", "templates/python.py", "    return {name}[name]\n", "    return {name}.get(name, 0)\n", "R04.b"),
    M("py-init-state-uses-parameter-index", "templates/python.py", "        {name}[state_index(key)] = value", "        {name}[parameter_index(key)] = value", "R04.b"),
    M("jax-init-param-uses-state-index", "templates/jax.py", "{name}.at[parameter_index(key)].set(value)", "{name}.at[state_index(key)].set(value)", "R04.b"),
    M("c-missing-index-monitor", "templates/c.py", 'return method_index(data, "missing")', 'return method_index(data, "monitor")', "R04.b"),
    M("enum-missing-permutation", "codegen/base.py", '    pts = "pts"\n', "", "R04.c"),
    M("argdict-swapped", "codegen/python.py", '            "s": "states",\n            "t": "t",\n            "p": "parameters",\n        }', '            "s": "parameters",\n            "t": "t",\n            "p": "states",\n        }', "R04.c"),
    M("num-monitored-without-intermediates", "cli/gotran2c.py", "{ len(ode.state_derivatives) + len(ode.intermediates)}", "{ len(ode.state_derivatives)}", "R04.d"),
    M("rhs-extent-params", "codegen/base.py", 'values_idx = sympy.IndexedBase("values", shape=(len(self.ode.state_derivatives),))', 'values_idx = sympy.IndexedBase("values", shape=(len(self.ode.parameters),))', "*"),
]

MUTANTS["C09"] = [
    M("unsorted-deps", "ode.py", "sorter.add(assignment.name, *sorted(assignment.value.dependencies))", "sorter.add(assignment.name, *assignment.value.dependencies)", "R09.a"),
    M("states-unsorted", "ode.py", "        return tuple(sorted(states, key=lambda x: x.name))", "        return tuple(states)", "R09.a"),
    M("intermediates-noninjective-key", "ode.py", "        return tuple(sorted(intermediates, key=lambda x: x.name))", "        return tuple(sorted(intermediates, key=lambda x: x.name.lower()))", "R09.a"),
    M("missing-variables-unsorted", "ode.py", "return {var: i for i, var in enumerate(sorted(variable_names))}", "return {var: i for i, var in enumerate(variable_names)}", "R09.a"),
    M("codegen-iterates-dependents", "codegen/base.py", "            for i, param in enumerate(self.ode.parameters)\n            if self._condition(param.name)", "            for i, param in enumerate(self.ode.dependents())\n            if self._condition(param)", "R09.a"),
    M("dedupe-via-set", "codegen/base.py", "state_names=[s.name for s in self.ode.sorted_states()],", "state_names=list({s.name for s in self.ode.sorted_states()}),", "R09.a"),
    M("rename-in-place", "schemes.py", "    renamed.__module__ = func.__module__\n    return typing.cast(scheme_func, renamed)", "    func.__code__ = func.__code__.replace(co_name=scheme)\n    return func", "R09.b"),
    M("module-level-cache", "schemes.py", "def list_schemes() -> list[str]:", "_CACHE: dict = {}\n\n\ndef _remember(k, v):\n    _CACHE[k] = v\n\n\ndef list_schemes() -> list[str]:", "R09.b"),
]
MUTANTS["C10"] = [
    M("eq-text-order", "ode.py", "            and sorted_components(__o) == sorted_components(self)", "            and __o.components == self.components", "R10.a"),
    M("states-in-component-order", "ode.py", "        states: set[atoms.State] = set()\n        for component in self.components:\n            states |= component.states\n        return tuple(sorted(states, key=lambda x: x.name))", "        out: list[atoms.State] = []\n        for component in self.components:\n            out.extend(sorted(component.states, key=lambda x: x.name))\n        return tuple(out)", "R10.a"),
    M("assignments-per-component", "ode.py", "        names = sort_assignments(\n            assignments=self.intermediates + self.state_derivatives,", "        ordered: list[atoms.Assignment] = []\n        for component in self.components:\n            ordered.extend(sorted(component.assignments, key=lambda x: x.name))\n        names = sort_assignments(\n            assignments=ordered,", "R10.a"),
    M("component-fields-tuples", "ode_component.py", "    states: frozenset[atoms.State] = attr.ib()\n    parameters: frozenset[atoms.Parameter] = attr.ib()\n    assignments: frozenset[atoms.Assignment] = attr.ib(init=False)", "    states: tuple[atoms.State, ...] = attr.ib()\n    parameters: frozenset[atoms.Parameter] = attr.ib()\n    assignments: frozenset[atoms.Assignment] = attr.ib(init=False)", "R10.b"),
]
MUTANTS["C12"] = [
    M("sort-reduced-set", "ode.py", "        names = sort_assignments(\n            assignments=self.intermediates + self.state_derivatives,", "        intermediates = self.intermediates\n        if remove_unused:\n            intermediates = tuple([a for a in intermediates if a.name in self.dependents()])\n        names = sort_assignments(\n            assignments=intermediates + self.state_derivatives,", "R12.c"),
    M("dependents-skip-derivatives", "ode.py", "                for dependency in assignment.value.dependencies:\n                    dependencies[dependency].add(assignment.name)", "                if isinstance(assignment, atoms.StateDerivative):\n                    continue\n                for dependency in assignment.value.dependencies:\n                    dependencies[dependency].add(assignment.name)", "R12.a"),
    M("scheme-filters-states", "codegen/base.py", "        rhs = self._scheme_arguments(order)\n        states = self._state_assignments(rhs.states, remove_unused=False)", "        rhs = self._scheme_arguments(order)\n        states = self._state_assignments(rhs.states, remove_unused=self.remove_unused)", "R12.b"),
    M("condition-on-intermediate-names", "codegen/base.py", "            self._condition = lambda x: x in self.deps\n", "            self._condition = lambda x: x in self.deps and not x.startswith(\"_\")\n", "R12.a"),
    M("filter-drops-derivatives", "ode.py", "unused = {a.name for a in self.intermediates if a.name not in deps}", "unused = {a.name for a in self.intermediates + self.state_derivatives if a.name not in deps}", "R12.a"),
    M("unpack-cache", "codegen/base.py", "    def _parameter_assignments(self, parameters: sympy.IndexedBase) -> str:\n        return", "    def _parameter_assignments(self, parameters: sympy.IndexedBase) -> str:\n        self._last_parameters = parameters\n        return", "R12.b"),
]
MUTANTS["C18"] = [
    M("ode2c-drops-format", "cli/__init__.py", "        delta=delta,\n        format=format,\n    )\n\n\n@app.command()\ndef list_schemes", "        delta=delta,\n    )\n\n\n@app.command()\ndef list_schemes", "R18.a"),
    M("convert-ignores-jax", "cli/__init__.py", "            backend=gotran2py.Backend.jax if jax else gotran2py.Backend.numpy,\n", "", "R18.a"),
    M("ode2py-drops-delta", "cli/__init__.py", "        stiff_states=stiff_states,\n        delta=delta,\n        format=format,\n        backend=backend,", "        stiff_states=stiff_states,\n        format=format,\n        backend=backend,", "R18.a"),
    M("main-crosses-options", "cli/gotran2py.py", "        stiff_states=stiff_states,\n        delta=delta,\n        backend=backend,\n    )\n    out = fname", "        stiff_states=stiff_states,\n        delta=1e-8,\n        backend=backend,\n    )\n    out = fname", "R18.a"),
    M("write-before-generate", "cli/gotran2c.py", "    ode = load_ode(fname)\n    code = get_code(", "    out0 = fname if outname is None else Path(outname)\n    out0.with_suffix(suffix=suffix).write_text(\"\")\n    ode = load_ode(fname)\n    code = get_code(", "R18.b"),
    M("swallow-errors", "cli/gotran2py.py", "    ode = load_ode(fname)\n\n    code = get_code(", "    try:\n        ode = load_ode(fname)\n    except Exception:\n        return\n\n    code = get_code(", "R18.b"),
    M("config-wrong-table", "cli/__init__.py", "    c_config = config_data.get(\"c\", {})", "    c_config = config_data.get(\"python\", {})", "R18.c"),
    M("config-overrides-explicit-path", "cli/utils.py", "    if path is None:\n        path = find_pyproject_toml_config()\n\n    # Return empty", "    path = find_pyproject_toml_config() or path\n\n    # Return empty", "R18.c"),
    M("config-default-lost", "cli/__init__.py", "    delta = config_data.get(\"delta\", delta)\n    stiff_states = config_data.get(\"stiff_states\", stiff_states)\n    scheme = config_data.get(\"scheme\", scheme)\n    scheme = utils.validate_scheme(scheme)\n    py_config", "    delta = config_data.get(\"delta\", 1e-8)\n    stiff_states = config_data.get(\"stiff_states\", stiff_states)\n    scheme = config_data.get(\"scheme\", scheme)\n    scheme = utils.validate_scheme(scheme)\n    py_config", "R18.c"),
    M("hybrid-loses-delta", "cli/utils.py", "            if \"rush_larsen\" in s.value:\n                kwargs[\"delta\"] = delta\n            if s.value == \"hybrid_rush_larsen\":\n                kwargs[\"stiff_states\"] = stiff_states", "            if s.value == \"hybrid_rush_larsen\":\n                kwargs[\"stiff_states\"] = stiff_states\n            elif \"rush_larsen\" in s.value:\n                kwargs[\"delta\"] = delta", "R18.a"),
]
MUTANTS["C20"] = [
    M("rhs-matrix-name-sorted", "sympytools.py", "sympy.Matrix([state.expr for state in ode.sorted_state_derivatives()])", "sympy.Matrix([state.expr for state in ode.state_derivatives])", "R20.a"),
    M("constant-bound", "sympytools.py", "def rhs_matrix(ode, max_tries: int | None = None)", "def rhs_matrix(ode, max_tries: int | None = 20)", "R20.b"),
    M("raise-on-count", "sympytools.py", "    if has_intermediates(rhs):\n        raise RuntimeError", "    if num_tries == max_tries:\n        raise RuntimeError", "R20.b"),
    M("partial-map", "sympytools.py", "intermediates = {x.symbol: x.expr for x in ode.intermediates}", "intermediates = {x.symbol: x.expr for x in ode.intermediates if x.expr.free_symbols}", "R20.b"),
    M("jacobi-constant-bound", "sympytools.py", "    return rhs_matrix(ode).jacobian(states_matrix(ode))", "    return rhs_matrix(ode, max_tries=20).jacobian(states_matrix(ode))", "R20.b"),
    M("jacobian-wrt-name-sorted", "sympytools.py", "    return rhs_matrix(ode).jacobian(states_matrix(ode))", "    return rhs_matrix(ode).jacobian(sympy.Matrix([s.symbol for s in ode.states]))", "R20.c"),
]
