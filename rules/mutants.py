"""Micro-mutations for the liveness self-test (thorough tier).  One entry per rule instance:
``old`` must occur in the current source of ``file``; the mutated text is analysed in memory.
"""

M = lambda id, file, old, new, rule, **kw: dict(id=id, file=file, old=old, new=new, rule=rule, **kw)  # noqa: E731

EULER_STORE = """                printer(
                    values[i],
                    x.state.symbol + dt * x.symbol,
                )
            )

            i += 1
"""

MUTANTS: dict[str, list[dict]] = {
    "C05": [
        M("euler-minus", "schemes.py", "x.state.symbol + dt * x.symbol,\n                )\n            )\n\n            i += 1", "x.state.symbol - dt * x.symbol,\n                )\n            )\n\n            i += 1", "R05.a"),
        M("euler-swapped", "schemes.py", "x.state.symbol + dt * x.symbol,\n                )\n            )\n\n            i += 1", "x.symbol + dt * x.state.symbol,\n                )\n            )\n\n            i += 1", "R05.a"),
        M("euler-no-dt", "schemes.py", "x.state.symbol + dt * x.symbol,\n                )\n            )\n\n            i += 1", "x.state.symbol + x.symbol,\n                )\n            )\n\n            i += 1", "R05.a"),
        M("euler-counter-outside", "schemes.py", "            )\n\n            i += 1\n\n    return eqs", "            )\n\n        i += 1\n\n    return eqs", "R05.a"),
        M("alias-euler-to-hybrid", "schemes.py", '["forward_rush_larsen", "rush_larsen", "hybrid_rush_larsen"]', '["forward_rush_larsen", "rush_larsen", "hybrid_rush_larsen", "forward_euler"]', "R05.b"),
        M("alias-wrong-family", "schemes.py", '["forward_generalized_rush_larsen", "generalized_rush_larsen"]', '["forward_generalized_rush_larsen", "generalized_rush_larsen", "forward_euler"]', "R05.b"),
        M("rename-const", "schemes.py", "func.__code__.replace(co_name=scheme)", "func.__code__.replace(co_name=func.__name__)", "R05.b"),
        M("alias-states-as-result", "codegen/python.py", 'values_type="numpy.zeros_like(states, dtype=numpy.float64)",\n        )\n\n    def _scheme_arguments', 'values_type="states",\n        )\n\n    def _scheme_arguments', "R05.c"),
        M("c-nonconst", "codegen/c.py", '"p": "const double *__restrict parameters",\n        }\n        argument_list = [argument_dict[v] for v in value] + ["double* values"]\n        states = sympy.IndexedBase("states", shape=(self.ode.num_states,))\n        parameters = sympy.IndexedBase("parameters", shape=(self.ode.num_parameters,))\n        values = sympy.IndexedBase("values", shape=(self.ode.num_states,))\n\n        return Func(\n            arguments=argument_list,\n            states=states,\n            parameters=parameters,\n            values=values,\n            values_type="",\n        )\n\n    def _scheme', '"p": "double *__restrict parameters",\n        }\n        argument_list = [argument_dict[v] for v in value] + ["double* values"]\n        states = sympy.IndexedBase("states", shape=(self.ode.num_states,))\n        parameters = sympy.IndexedBase("parameters", shape=(self.ode.num_parameters,))\n        values = sympy.IndexedBase("values", shape=(self.ode.num_states,))\n\n        return Func(\n            arguments=argument_list,\n            states=states,\n            parameters=parameters,\n            values=values,\n            values_type="",\n        )\n\n    def _scheme', "R05.c"),
        M("dt-symbol-renamed", "codegen/base.py", 'dt = sympy.Symbol("dt")', 'dt = sympy.Symbol("h")', "R05.d"),
    ],
    "C06": [
        M("grl-diff-wrt-derivative", "schemes.py", "        expr_diff = x.expr.diff(x.state.symbol)\n\n        if expr_diff.is_zero:", "        expr_diff = x.expr.diff(x.symbol)\n\n        if expr_diff.is_zero:", "R06.a"),
        M("grl-guard-flipped", "schemes.py", "                abs(linearized) > delta,\n                RL_term,\n                dt * x.symbol,\n            )\n        eqs.append(\n            printer(\n                values[i],\n                x.state.symbol + RL_term,\n            )\n        )\n        i += 1\n    return eqs", "                abs(linearized) < delta,\n                RL_term,\n                dt * x.symbol,\n            )\n        eqs.append(\n            printer(\n                values[i],\n                x.state.symbol + RL_term,\n            )\n        )\n        i += 1\n    return eqs", "R06.a"),
        M("grl-const-delta", "schemes.py", "                abs(linearized) > delta,\n                RL_term,\n                dt * x.symbol,\n            )\n        eqs.append(\n            printer(\n                values[i],\n                x.state.symbol + RL_term,\n            )\n        )\n        i += 1\n    return eqs", "                abs(linearized) > 1e-8,\n                RL_term,\n                dt * x.symbol,\n            )\n        eqs.append(\n            printer(\n                values[i],\n                x.state.symbol + RL_term,\n            )\n        )\n        i += 1\n    return eqs", "R06.a"),
        M("grl-exp-sign", "schemes.py", "        RL_term = x.symbol / linearized * (sympy.exp(linearized * dt) - 1)\n        if need_zero_div_check:\n            RL_term = sympytools.Conditional(\n                abs(linearized) > delta,\n                RL_term,\n                dt * x.symbol,\n            )\n        eqs.append(\n            printer(\n                values[i],\n                x.state.symbol + RL_term,\n            )\n        )\n        i += 1\n    return eqs", "        RL_term = x.symbol / linearized * (sympy.exp(linearized * dt) + 1)\n        if need_zero_div_check:\n            RL_term = sympytools.Conditional(\n                abs(linearized) > delta,\n                RL_term,\n                dt * x.symbol,\n            )\n        eqs.append(\n            printer(\n                values[i],\n                x.state.symbol + RL_term,\n            )\n        )\n        i += 1\n    return eqs", "R06.a"),
        M("elision-accepts-add", "schemes.py", "    else:\n        return False\n\n\ndef explicit_euler", "    elif isinstance(expr, sympy.Add):\n        return True\n    else:\n        return False\n\n\ndef explicit_euler", "R06.b"),
        M("elision-any-pow", "schemes.py", "        if b is sympy.S.NegativeOne:\n            return True\n        else:\n            # we won't do any further checks\n            return False", "        if b is sympy.S.NegativeOne:\n            return True\n        else:\n            # we won't do any further checks\n            return True", "R06.b"),
        M("elision-drops-nonzero", "schemes.py", "if len(e.free_symbols) == 0 and e.is_nonzero:", "if len(e.free_symbols) == 0:", "R06.b"),
        M("delta-not-passed", "cli/utils.py", 'kwargs["delta"] = delta', 'kwargs["delta"] = 1e-8', "R06.c"),
        M("delta-dropped-in-get_code", "cli/gotran2py.py", "        scheme=scheme,\n        delta=delta,\n        stiff_states=stiff_states,\n    )\n    code = codegen._format", "        scheme=scheme,\n        stiff_states=stiff_states,\n    )\n    code = codegen._format", "R06.c"),
    ],
    "C07": [
        M("hybrid-and-instead-of-or", "schemes.py", "if not state_is_stiff or expr_diff.is_zero:", "if not state_is_stiff and expr_diff.is_zero:", "R07.a"),
        M("hybrid-derivative-name", "schemes.py", "state_is_stiff = x.state.name in stiff_states_set", "state_is_stiff = x.name in stiff_states_set", "R07.a"),
        M("hybrid-inverted", "schemes.py", "if not state_is_stiff or expr_diff.is_zero:", "if state_is_stiff or expr_diff.is_zero:", "R07.a"),
        M("hybrid-rl-drift", "schemes.py", "        RL_term = x.symbol / linearized * (sympy.exp(linearized * dt) - 1)\n        if need_zero_div_check:\n            RL_term = sympytools.Conditional(\n                abs(linearized) > delta,\n                RL_term,\n                dt * x.symbol,\n            )\n        eqs.append(\n            printer(\n                values[i],\n                x.state.symbol + RL_term,\n            )\n        )\n        i += 1\n    logger.debug(", "        RL_term = x.symbol / linearized * (sympy.exp(linearized * dt) - 1)\n        if need_zero_div_check:\n            RL_term = sympytools.Conditional(\n                abs(linearized) > delta,\n                RL_term,\n                x.symbol,\n            )\n        eqs.append(\n            printer(\n                values[i],\n                x.state.symbol + RL_term,\n            )\n        )\n        i += 1\n    logger.debug(", "R07.a"),
        M("hybrid-euler-drift", "schemes.py", "            # Use forward Euler\n            eqs.append(\n                printer(\n                    values[i],\n                    x.state.symbol + dt * x.symbol,\n                )\n            )\n            i += 1\n            continue\n\n        found_stiff_states_set", "            # Use forward Euler\n            eqs.append(\n                printer(\n                    values[i],\n                    x.state.symbol + dt * x.expr.diff(x.state.symbol),\n                )\n            )\n            i += 1\n            continue\n\n        found_stiff_states_set", "R07.a"),
        M("stiff-for-all-rl", "cli/utils.py", 'if s.value == "hybrid_rush_larsen":', 'if "euler" in s.value:', "R07.b"),
        M("stiff-dropped-c", "cli/gotran2c.py", "        delta=delta,\n        stiff_states=stiff_states,\n    )\n\n    code = codegen._format", "        delta=delta,\n    )\n\n    code = codegen._format", "R07.b"),
    ],
}
