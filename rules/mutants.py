"""Micro-mutations for the liveness self-test (thorough tier).  One entry per rule instance:
``old`` must occur in the current source of ``file``; the mutated text is analysed in memory.
"""

M = lambda id, file, old, new, rule, **kw: dict(id=id, file=file, old=old, new=new, rule=rule, **kw)  # noqa: E731

EULER_STORE = """                printer(
                    values[i],
                    x.state.symbol + dt * x.symbol,
                )
            )

            i += 1
"""

MUTANTS: dict[str, list[dict]] = {
    "C05": [
        M("euler-minus", "schemes.py", "x.state.symbol + dt * x.symbol,\n                )\n            )\n\n            i += 1", "x.state.symbol - dt * x.symbol,\n                )\n            )\n\n            i += 1", "R05.a"),
        M("euler-swapped", "schemes.py", "x.state.symbol + dt * x.symbol,\n                )\n            )\n\n            i += 1", "x.symbol + dt * x.state.symbol,\n                )\n            )\n\n            i += 1", "R05.a"),
        M("euler-no-dt", "schemes.py", "x.state.symbol + dt * x.symbol,\n                )\n            )\n\n            i += 1", "x.state.symbol + x.symbol,\n                )\n            )\n\n            i += 1", "R05.a"),
        M("euler-counter-outside", "schemes.py", "            )\n\n            i += 1\n\n    return eqs", "            )\n\n        i += 1\n\n    return eqs", "R05.a"),
        M("alias-euler-to-hybrid", "schemes.py", '["forward_euler", "forward_explicit_euler", "euler", "explicit_euler"]', '["forward_euler", "forward_explicit_euler", "explicit_euler", "rush_larsen"]', "R05.b"),
        M("alias-wrong-family", "schemes.py", '["forward_generalized_rush_larsen", "generalized_rush_larsen"]', '["forward_generalized_rush_larsen", "generalized_rush_larsen", "rush_larsen"]', "R05.b"),
        M("rename-const", "schemes.py", "func.__code__.replace(co_name=scheme)", "func.__code__.replace(co_name=func.__name__)", "R05.b"),
        M("alias-states-as-result", "codegen/python.py", 'values_type="numpy.zeros_like(states, dtype=numpy.float64)",\n        )\n\n    def _scheme_arguments', 'values_type="states",\n        )\n\n    def _scheme_arguments', "R05.c"),
        M("c-nonconst", "codegen/c.py", '"p": "const double *__restrict parameters",\n        }\n        argument_list = [argument_dict[v] for v in value] + ["double* values"]\n        states = sympy.IndexedBase("states", shape=(self.ode.num_states,))\n        parameters = sympy.IndexedBase("parameters", shape=(self.ode.num_parameters,))\n        values = sympy.IndexedBase("values", shape=(self.ode.num_states,))\n\n        return Func(\n            arguments=argument_list,\n            states=states,\n            parameters=parameters,\n            values=values,\n            values_type="",\n        )\n\n    def _scheme', '"p": "double *__restrict parameters",\n        }\n        argument_list = [argument_dict[v] for v in value] + ["double* values"]\n        states = sympy.IndexedBase("states", shape=(self.ode.num_states,))\n        parameters = sympy.IndexedBase("parameters", shape=(self.ode.num_parameters,))\n        values = sympy.IndexedBase("values", shape=(self.ode.num_states,))\n\n        return Func(\n            arguments=argument_list,\n            states=states,\n            parameters=parameters,\n            values=values,\n            values_type="",\n        )\n\n    def _scheme', "R05.c"),
        M("dt-symbol-renamed", "codegen/base.py", 'dt = sympy.Symbol("dt")', 'dt = sympy.Symbol("h")', "R05.d"),
    ],
    "C06": [
        M("grl-diff-wrt-derivative", "schemes.py", "        expr_diff = x.expr.diff(x.state.symbol)\n\n        if expr_diff.is_zero:", "        expr_diff = x.expr.diff(x.symbol)\n\n        if expr_diff.is_zero:", "R06.a"),
        M("grl-guard-flipped", "schemes.py", "                abs(linearized) > delta,\n                RL_term,\n                dt * x.symbol,\n            )\n        eqs.append(\n            printer(\n                values[i],\n                x.state.symbol + RL_term,\n            )\n        )\n        i += 1\n    return eqs", "                abs(linearized) < delta,\n                RL_term,\n                dt * x.symbol,\n            )\n        eqs.append(\n            printer(\n                values[i],\n                x.state.symbol + RL_term,\n            )\n        )\n        i += 1\n    return eqs", "R06.a"),
        M("grl-const-delta", "schemes.py", "                abs(linearized) > delta,\n                RL_term,\n                dt * x.symbol,\n            )\n        eqs.append(\n            printer(\n                values[i],\n                x.state.symbol + RL_term,\n            )\n        )\n        i += 1\n    return eqs", "                abs(linearized) > 1e-8,\n                RL_term,\n                dt * x.symbol,\n            )\n        eqs.append(\n            printer(\n                values[i],\n                x.state.symbol + RL_term,\n            )\n        )\n        i += 1\n    return eqs", "R06.a"),
        M("grl-exp-sign", "schemes.py", "        RL_term = x.symbol / linearized * (sympy.exp(linearized * dt) - 1)\n        if need_zero_div_check:\n            RL_term = sympytools.Conditional(\n                abs(linearized) > delta,\n                RL_term,\n                dt * x.symbol,\n            )\n        eqs.append(\n            printer(\n                values[i],\n                x.state.symbol + RL_term,\n            )\n        )\n        i += 1\n    return eqs", "        RL_term = x.symbol / linearized * (sympy.exp(linearized * dt) + 1)\n        if need_zero_div_check:\n            RL_term = sympytools.Conditional(\n                abs(linearized) > delta,\n                RL_term,\n                dt * x.symbol,\n            )\n        eqs.append(\n            printer(\n                values[i],\n                x.state.symbol + RL_term,\n            )\n        )\n        i += 1\n    return eqs", "R06.a"),
        M("elision-accepts-add", "schemes.py", "    else:\n        return False\n\n\ndef explicit_euler", "    elif isinstance(expr, sympy.Add):\n        return True\n    else:\n        return False\n\n\ndef explicit_euler", "R06.b"),
        M("elision-any-pow", "schemes.py", "        if b is sympy.S.NegativeOne:\n            return True\n        else:\n            # we won't do any further checks\n            return False", "        if b is sympy.S.NegativeOne:\n            return True\n        else:\n            # we won't do any further checks\n            return True", "R06.b"),
        M("elision-drops-nonzero", "schemes.py", "if len(e.free_symbols) == 0 and e.is_nonzero:", "if len(e.free_symbols) == 0:", "R06.b"),
        M("delta-not-passed", "cli/utils.py", 'kwargs["delta"] = delta', 'kwargs["delta"] = 1e-8', "R06.c"),
        M("delta-dropped-in-get_code", "cli/gotran2py.py", "        scheme=scheme,\n        delta=delta,\n        stiff_states=stiff_states,\n    )\n    code = codegen._format", "        scheme=scheme,\n        stiff_states=stiff_states,\n    )\n    code = codegen._format", "R06.c"),
    ],
    "C07": [
        M("hybrid-and-instead-of-or", "schemes.py", "if not state_is_stiff or expr_diff.is_zero:", "if not state_is_stiff and expr_diff.is_zero:", "R07.a"),
        M("hybrid-derivative-name", "schemes.py", "state_is_stiff = x.state.name in stiff_states_set", "state_is_stiff = x.name in stiff_states_set", "R07.a"),
        M("hybrid-inverted", "schemes.py", "if not state_is_stiff or expr_diff.is_zero:", "if state_is_stiff or expr_diff.is_zero:", "R07.a"),
        M("hybrid-rl-drift", "schemes.py", "        RL_term = x.symbol / linearized * (sympy.exp(linearized * dt) - 1)\n        if need_zero_div_check:\n            RL_term = sympytools.Conditional(\n                abs(linearized) > delta,\n                RL_term,\n                dt * x.symbol,\n            )\n        eqs.append(\n            printer(\n                values[i],\n                x.state.symbol + RL_term,\n            )\n        )\n        i += 1\n    logger.debug(", "        RL_term = x.symbol / linearized * (sympy.exp(linearized * dt) - 1)\n        if need_zero_div_check:\n            RL_term = sympytools.Conditional(\n                abs(linearized) > delta,\n                RL_term,\n                x.symbol,\n            )\n        eqs.append(\n            printer(\n                values[i],\n                x.state.symbol + RL_term,\n            )\n        )\n        i += 1\n    logger.debug(", "R07.a"),
        M("hybrid-euler-drift", "schemes.py", "            # Use forward Euler\n            eqs.append(\n                printer(\n                    values[i],\n                    x.state.symbol + dt * x.symbol,\n                )\n            )\n            i += 1\n            continue\n\n        found_stiff_states_set", "            # Use forward Euler\n            eqs.append(\n                printer(\n                    values[i],\n                    x.state.symbol + dt * x.expr.diff(x.state.symbol),\n                )\n            )\n            i += 1\n            continue\n\n        found_stiff_states_set", "R07.a"),
        M("stiff-for-all-rl", "cli/utils.py", 'if s.value == "hybrid_rush_larsen":', 'if "euler" in s.value:', "R07.b"),
        M("stiff-dropped-c", "cli/gotran2c.py", "        delta=delta,\n        stiff_states=stiff_states,\n    )\n\n    code = codegen._format", "        delta=delta,\n    )\n\n    code = codegen._format", "R07.b"),
    ],
}

MUTANTS["C04"] = [
    M("state-index-name-sorted", "codegen/base.py", "data={s.name: i for i, s in enumerate(self.ode.sorted_states())}", "data={s.name: i for i, s in enumerate(self.ode.states)}", "R04.a"),
    M("monitor-index-remove-unused", "codegen/base.py", "        for x in self.ode.sorted_assignments(remove_unused=False):\n            if isinstance(x, (atoms.Intermediate, atoms.StateDerivative)):\n                data[x.name] = index", "        for x in self.ode.sorted_assignments(remove_unused=self.remove_unused):\n            if isinstance(x, (atoms.Intermediate, atoms.StateDerivative)):\n                data[x.name] = index", "R04.a"),
    M("unpack-filter-before-enumerate", "codegen/base.py", "for i, state in enumerate(self.ode.sorted_states())\n            if not remove_unused or self._condition(state.name)", "for i, state in enumerate(s for s in self.ode.sorted_states() if not remove_unused or self._condition(s.name))", "R04.a"),
    M("rhs-counter-outside-guard", "codegen/base.py", "                values_lst.append(self._doprint(values_idx[index], x.symbol))\n                index += 1\n\n        values = \"\\n\".join(values_lst)\n        code = self.template.method(\n            name=\"rhs\"", "                values_lst.append(self._doprint(values_idx[index], x.symbol))\n            index += 1\n\n        values = \"\\n\".join(values_lst)\n        code = self.template.method(\n            name=\"rhs\"", "R04.a"),
    M("sort-reduced-set", "ode.py", "        names = sort_assignments(\n            assignments=self.intermediates + self.state_derivatives,", "        intermediates = self.intermediates\n        if remove_unused:\n            intermediates = tuple([a for a in intermediates if a.name in self.dependents()])\n        names = sort_assignments(\n            assignments=intermediates + self.state_derivatives,", "R04.a"),
    M("init-names-from-name-sorted", "codegen/base.py", "state_names=[s.name for s in self.ode.sorted_states()],", "state_names=[s.name for s in self.ode.states],", "R04.a"),
    M("index-dict-swapped", "codegen/base.py", "data={s.name: i for i, s in enumerate(self.ode.parameters)}", "data={i: s.name for i, s in enumerate(self.ode.parameters)}", "R04.a2"),
    M("state-index-calls-parameter-template", "codegen/base.py", "        code = self.template.state_index(\n", "        code = self.template.parameter_index(\n", "*"),
    M("c-unknown-returns-0", "templates/c.py", 'indent("return -1;", "    ")', 'indent("return 0;", "    ")', "R04.b"),
    M("py-index-get-default", "templates/python.py", "    return {name}[name]\n", "    return {name}.get(name, 0)\n", "R04.b"),
    M("py-init-state-uses-parameter-index", "templates/python.py", "        {name}[state_index(key)] = value", "        {name}[parameter_index(key)] = value", "R04.b"),
    M("jax-init-param-uses-state-index", "templates/jax.py", "{name}.at[parameter_index(key)].set(value)", "{name}.at[state_index(key)].set(value)", "R04.b"),
    M("c-missing-index-monitor", "templates/c.py", 'return method_index(data, "missing")', 'return method_index(data, "monitor")', "R04.b"),
    M("enum-missing-permutation", "codegen/base.py", '    pts = "pts"\n', "", "R04.c"),
    M("argdict-swapped", "codegen/python.py", '            "s": "states",\n            "t": "t",\n            "p": "parameters",\n        }', '            "s": "parameters",\n            "t": "t",\n            "p": "states",\n        }', "R04.c"),
    M("num-monitored-without-intermediates", "cli/gotran2c.py", "{ len(ode.state_derivatives) + len(ode.intermediates)}", "{ len(ode.state_derivatives)}", "R04.d"),
    M("rhs-extent-params", "codegen/base.py", 'values_idx = sympy.IndexedBase("values", shape=(len(self.ode.state_derivatives),))', 'values_idx = sympy.IndexedBase("values", shape=(len(self.ode.parameters),))', "*"),
]

MUTANTS["C09"] = [
    M("unsorted-deps", "ode.py", "sorter.add(assignment.name, *sorted(assignment.value.dependencies))", "sorter.add(assignment.name, *assignment.value.dependencies)", "R09.a"),
    M("states-unsorted", "ode.py", "        return tuple(sorted(states, key=lambda x: x.name))", "        return tuple(states)", "R09.a"),
    M("intermediates-noninjective-key", "ode.py", "        return tuple(sorted(intermediates, key=lambda x: x.name))", "        return tuple(sorted(intermediates, key=lambda x: x.name.lower()))", "R09.a"),
    M("missing-variables-unsorted", "ode.py", "return {var: i for i, var in enumerate(sorted(variable_names))}", "return {var: i for i, var in enumerate(variable_names)}", "R09.a"),
    M("codegen-iterates-dependents", "codegen/base.py", "            for i, param in enumerate(self.ode.parameters)\n            if self._condition(param.name)", "            for i, param in enumerate(self.ode.dependents())\n            if self._condition(param)", "R09.a"),
    M("dedupe-via-set", "codegen/base.py", "state_names=[s.name for s in self.ode.sorted_states()],", "state_names=list({s.name for s in self.ode.sorted_states()}),", "R09.a"),
    M("rename-in-place", "schemes.py", "    renamed.__module__ = func.__module__\n    return typing.cast(scheme_func, renamed)", "    func.__code__ = func.__code__.replace(co_name=scheme)\n    return func", "R09.b"),
    M("module-level-cache", "schemes.py", "def list_schemes() -> list[str]:", "_CACHE: dict = {}\n\n\ndef _remember(k, v):\n    _CACHE[k] = v\n\n\ndef list_schemes() -> list[str]:", "R09.b"),
]
MUTANTS["C10"] = [
    M("eq-text-order", "ode.py", "            and sorted_components(__o) == sorted_components(self)", "            and __o.components == self.components", "R10.a"),
    M("states-in-component-order", "ode.py", "        states: set[atoms.State] = set()\n        for component in self.components:\n            states |= component.states\n        return tuple(sorted(states, key=lambda x: x.name))", "        out: list[atoms.State] = []\n        for component in self.components:\n            out.extend(sorted(component.states, key=lambda x: x.name))\n        return tuple(out)", "R10.a"),
    M("assignments-per-component", "ode.py", "        names = sort_assignments(\n            assignments=self.intermediates + self.state_derivatives,", "        ordered: list[atoms.Assignment] = []\n        for component in self.components:\n            ordered.extend(sorted(component.assignments, key=lambda x: x.name))\n        names = sort_assignments(\n            assignments=ordered,", "R10.a"),
    M("component-fields-tuples", "ode_component.py", "    states: frozenset[atoms.State] = attr.ib()\n    parameters: frozenset[atoms.Parameter] = attr.ib()\n    assignments: frozenset[atoms.Assignment] = attr.ib(init=False)", "    states: tuple[atoms.State, ...] = attr.ib()\n    parameters: frozenset[atoms.Parameter] = attr.ib()\n    assignments: frozenset[atoms.Assignment] = attr.ib(init=False)", "R10.b"),
]
MUTANTS["C12"] = [
    M("sort-reduced-set", "ode.py", "        names = sort_assignments(\n            assignments=self.intermediates + self.state_derivatives,", "        intermediates = self.intermediates\n        if remove_unused:\n            intermediates = tuple([a for a in intermediates if a.name in self.dependents()])\n        names = sort_assignments(\n            assignments=intermediates + self.state_derivatives,", "R12.c"),
    M("dependents-skip-derivatives", "ode.py", "                for dependency in assignment.value.dependencies:\n                    dependencies[dependency].add(assignment.name)", "                if isinstance(assignment, atoms.StateDerivative):\n                    continue\n                for dependency in assignment.value.dependencies:\n                    dependencies[dependency].add(assignment.name)", "R12.a"),
    M("scheme-filters-states", "codegen/base.py", "        rhs = self._scheme_arguments(order)\n        states = self._state_assignments(rhs.states, remove_unused=False)", "        rhs = self._scheme_arguments(order)\n        states = self._state_assignments(rhs.states, remove_unused=self.remove_unused)", "R12.b"),
    M("condition-on-intermediate-names", "codegen/base.py", "            self._condition = lambda x: x in self.deps\n", "            self._condition = lambda x: x in self.deps and not x.startswith(\"_\")\n", "R12.a"),
    M("filter-drops-derivatives", "ode.py", "unused = {a.name for a in self.intermediates if a.name not in deps}", "unused = {a.name for a in self.intermediates + self.state_derivatives if a.name not in deps}", "R12.a"),
    M("unpack-cache", "codegen/base.py", "    def _parameter_assignments(self, parameters: sympy.IndexedBase) -> str:\n        return", "    def _parameter_assignments(self, parameters: sympy.IndexedBase) -> str:\n        self._last_parameters = parameters\n        return", "R12.b"),
]
MUTANTS["C18"] = [
    M("ode2c-drops-format", "cli/__init__.py", "        delta=delta,\n        format=format,\n    )\n\n\n@app.command()\ndef list_schemes", "        delta=delta,\n    )\n\n\n@app.command()\ndef list_schemes", "R18.a"),
    M("convert-ignores-jax", "cli/__init__.py", "            backend=gotran2py.Backend.jax if jax else gotran2py.Backend.numpy,\n", "", "R18.a"),
    M("ode2py-drops-delta", "cli/__init__.py", "        stiff_states=stiff_states,\n        delta=delta,\n        format=format,\n        backend=backend,", "        stiff_states=stiff_states,\n        format=format,\n        backend=backend,", "R18.a"),
    M("main-crosses-options", "cli/gotran2py.py", "        stiff_states=stiff_states,\n        delta=delta,\n        backend=backend,\n    )\n    out = fname", "        stiff_states=stiff_states,\n        delta=1e-8,\n        backend=backend,\n    )\n    out = fname", "R18.a"),
    M("write-before-generate", "cli/gotran2c.py", "    ode = load_ode(fname)\n    code = get_code(", "    out0 = fname if outname is None else Path(outname)\n    out0.with_suffix(suffix=suffix).write_text(\"\")\n    ode = load_ode(fname)\n    code = get_code(", "R18.b"),
    M("swallow-errors", "cli/gotran2py.py", "    ode = load_ode(fname)\n\n    code = get_code(", "    try:\n        ode = load_ode(fname)\n    except Exception:\n        return\n\n    code = get_code(", "R18.b"),
    M("config-wrong-table", "cli/__init__.py", "    c_config = config_data.get(\"c\", {})", "    c_config = config_data.get(\"python\", {})", "R18.c"),
    M("config-overrides-explicit-path", "cli/utils.py", "    if path is None:\n        path = find_pyproject_toml_config()\n\n    # Return empty", "    path = find_pyproject_toml_config() or path\n\n    # Return empty", "R18.c"),
    M("config-default-lost", "cli/__init__.py", "    delta = config_data.get(\"delta\", delta)\n    stiff_states = config_data.get(\"stiff_states\", stiff_states)\n    scheme = config_data.get(\"scheme\", scheme)\n    scheme = utils.validate_scheme(scheme)\n    py_config", "    delta = config_data.get(\"delta\", 1e-8)\n    stiff_states = config_data.get(\"stiff_states\", stiff_states)\n    scheme = config_data.get(\"scheme\", scheme)\n    scheme = utils.validate_scheme(scheme)\n    py_config", "R18.c"),
    M("hybrid-loses-delta", "cli/utils.py", "            if \"rush_larsen\" in s.value:\n                kwargs[\"delta\"] = delta\n            if s.value == \"hybrid_rush_larsen\":\n                kwargs[\"stiff_states\"] = stiff_states", "            if s.value == \"hybrid_rush_larsen\":\n                kwargs[\"stiff_states\"] = stiff_states\n            elif \"rush_larsen\" in s.value:\n                kwargs[\"delta\"] = delta", "R18.a"),
]
MUTANTS["C20"] = [
    M("rhs-matrix-name-sorted", "sympytools.py", "sympy.Matrix([state.expr for state in ode.sorted_state_derivatives()])", "sympy.Matrix([state.expr for state in ode.state_derivatives])", "R20.a"),
    M("constant-bound", "sympytools.py", "def rhs_matrix(ode, max_tries: int | None = None)", "def rhs_matrix(ode, max_tries: int | None = 20)", "R20.b"),
    M("raise-on-count", "sympytools.py", "    if has_intermediates(rhs):\n        raise RuntimeError", "    if num_tries == max_tries:\n        raise RuntimeError", "R20.b"),
    M("partial-map", "sympytools.py", "intermediates = {x.symbol: x.expr for x in ode.intermediates + ode.state_derivatives}", "intermediates = {x.symbol: x.expr for x in ode.intermediates + ode.state_derivatives if x.expr.free_symbols}", "R20.b"),
    M("states-matrix-name-sorted", "sympytools.py", "sympy.Matrix([state.symbol for state in ode.sorted_states()])", "sympy.Matrix([state.symbol for state in ode.states])", "R20.a"),
    M("jacobi-constant-bound", "sympytools.py", "    return rhs_matrix(ode).jacobian(states_matrix(ode))", "    return rhs_matrix(ode, max_tries=20).jacobian(states_matrix(ode))", "R20.b"),
    M("jacobian-wrt-name-sorted", "sympytools.py", "    return rhs_matrix(ode).jacobian(states_matrix(ode))", "    return rhs_matrix(ode).jacobian(sympy.Matrix([s.symbol for s in ode.states]))", "R20.c"),
]

MUTANTS["C01"] = [
    M("minus-swapped", "expressions.py", "return sp.Add(fst, sp.Mul(sp.Integer(-1), snd, evaluate=False), evaluate=False)", "return sp.Add(snd, sp.Mul(sp.Integer(-1), fst, evaluate=False), evaluate=False)", "R01.a"),
    M("division-no-inverse", "expressions.py", "return sp.Mul(fst, sp.Pow(snd, sp.Integer(-1), evaluate=False), evaluate=False)", "return sp.Mul(fst, sp.Pow(snd, sp.Integer(1), evaluate=False), evaluate=False)", "R01.a"),
    M("unary-minus-identity", "expressions.py", "        return sp.Mul(sp.Integer(-1), arg, evaluate=False)\n    if op == \"+\":", "        return arg\n    if op == \"+\":", "R01.a"),
    M("tilde-accepted", "expressions.py", "    if op == \"+\":\n        return arg\n", "    if op == \"+\" or op == \"~\":\n        return arg\n", "R01.a"),
    M("fold-operands-swapped", "expressions.py", "                    fst,\n                    expr2symbols(tree.children[i + 1]),", "                    expr2symbols(tree.children[i + 1]),\n                    fst,", "R01.b"),
    M("power-swapped", "expressions.py", "                expr2symbols(tree.children[0]),\n                expr2symbols(tree.children[1]),\n            )\n\n        if tree.data == \"variable\":", "                expr2symbols(tree.children[1]),\n                expr2symbols(tree.children[0]),\n            )\n\n        if tree.data == \"variable\":", "R01.b"),
    M("power-left-assoc", "ode.lark", '?power: signedatom ("**" factor)?', '?power: signedatom ("**" signedatom)*', "R01.c"),
    M("mul-below-add", "ode.lark", '!_add_op: "+"|"-"\n!_mul_op: "*"|"/"', '!_add_op: "*"|"/"\n!_mul_op: "+"|"-"', "R01.c"),
    M("conditional-branches-swapped", "expressions.py", "                    true_value=expr2symbols(tree.children[2]),\n                    false_value=expr2symbols(tree.children[3]),\n                )\n\n            elif", "                    true_value=expr2symbols(tree.children[3]),\n                    false_value=expr2symbols(tree.children[2]),\n                )\n\n            elif", "R01.d"),
    M("abs-mapping-lost", "expressions.py", '                funcname = "Abs"', '                funcname = "sign"', "R01.d"),
    M("pi-case-insensitive", "expressions.py", 'if tree.children[0] == "pi":', 'if tree.children[0].lower() == "pi":', "R01.d"),
    M("piecewise-pairs-swapped", "sympytools.py", "        (true_value, cond),\n        (false_value, sympy.sympify(True)),", "        (false_value, cond),\n        (true_value, sympy.sympify(True)),", "R01.e"),
    M("continuous-weights-swapped", "sympytools.py", "        return true_value * (1 - H) + false_value * H\n", "        return true_value * H + false_value * (1 - H)\n", "R01.e"),
    M("continuous-branch-test", "sympytools.py", '    if ">" in cond.rel_op:\n        return', "    if isinstance(cond, sympy.GreaterThan):\n        return", "R01.e"),
    M("sorter-edge-reversed", "ode.py", "sorter.add(assignment.name, *sorted(assignment.value.dependencies))", "[sorter.add(d, assignment.name) for d in sorted(assignment.value.dependencies)]", "R01.f"),
    M("store-before-definition", "codegen/base.py", "            values_lst.append(self._doprint(x.symbol, x.expr, use_variable_prefix=True))\n            if isinstance(x, atoms.StateDerivative):\n                values_lst.append(self._doprint(values_idx[index], x.symbol))\n                index += 1\n\n        values = \"\\n\".join(values_lst)\n        code = self.template.method(\n            name=\"rhs\"", "            if isinstance(x, atoms.StateDerivative):\n                values_lst.append(self._doprint(values_idx[index], x.symbol))\n                index += 1\n            values_lst.append(self._doprint(x.symbol, x.expr, use_variable_prefix=True))\n\n        values = \"\\n\".join(values_lst)\n        code = self.template.method(\n            name=\"rhs\"", "R01.f"),
    M("time-alias-dropped", "ode.py", '    symbols["time"] = t\n    symbols["t"] = t\n', '    symbols["t"] = t\n', "R01.g"),
    M("float-precision", "codegen/python.py", "        return self._print(str(float(flt)))\n\n    def _print_Piecewise", "        return self._print(f\"{float(flt):.6g}\")\n\n    def _print_Piecewise", "R01.h"),
    M("and-printed-as-or", "codegen/python.py", 'return self._print_nested("numpy.logical_and", expr)', 'return self._print_nested("numpy.logical_or", expr)', "R01.h"),
    M("where-override-removed", "codegen/python.py", "    def _print_Piecewise(self, expr):\n        result = []\n", "    def _print_Piecewise_disabled(self, expr):\n        result = []\n", "R01.h"),
    M("where-closing-count", "codegen/python.py", '            result.append(")" * (len(conds) - 1))', '            result.append(")" * len(conds))', "R01.h"),
    M("slot-order-name-sorted", "codegen/base.py", "        for x in self.ode.sorted_assignments(remove_unused=self.remove_unused):\n            values_lst.append", "        for x in self.ode.intermediates + self.ode.state_derivatives:\n            values_lst.append", "R01.i"),
]
MUTANTS["C02"] = [
    M("mod-single-fmod", "codegen/c.py", 'return f"fmod(fmod({num}, {den}) + ({den}), {den})"', 'return f"fmod({num}, {den})"', "R02.b"),
    M("mod-shifted", "codegen/c.py", 'return f"fmod(fmod({num}, {den}) + ({den}), {den})"', 'return f"fmod(({num}) + ({den}), {den})"', "R02.b"),
    M("mod-override-removed", "codegen/c.py", "    def _print_Mod(self, expr):", "    def _print_Mod_disabled(self, expr):", "R02.a"),
    M("float-override-removed", "codegen/c.py", "    def _print_Float(self, flt):\n        return self._print(str(float(flt)))\n\n    def _print_Mod", "    def _print_Float_disabled(self, flt):\n        return self._print(str(float(flt)))\n\n    def _print_Mod", "R02.a"),
    M("bool-regex-precedence", "codegen/c.py", 'return re.sub(r"\\btrue\\b", "1", re.sub(r"\\bfalse\\b", "0", expr))', 'return re.sub(r"\\btrue|false\\b", lambda m: "1" if m.group() == "true" else "0", expr)', "R02.c"),
    M("bool-str-replace", "codegen/c.py", 'return re.sub(r"\\btrue\\b", "1", re.sub(r"\\bfalse\\b", "0", expr))', 'return expr.replace("false", "0").replace("true", "1")', "R02.c"),
    M("c-index-unknown-0", "templates/c.py", 'indent("return -1;", "    ")', 'indent("return 0;", "    ")', "R02.d"),
    M("num-monitored", "cli/gotran2c.py", "{ len(ode.state_derivatives) + len(ode.intermediates)}", "{ len(ode.intermediates)}", "R02.d"),
    M("c-locals-not-double", "codegen/c.py", 'variable_prefix = "const double "', 'variable_prefix = "const int "', "R02.d"),
    M("c-monitor-filtered", "codegen/base.py", "        for x in self.ode.sorted_assignments(remove_unused=False):\n            values_lst.append(self._doprint(x.symbol, x.expr, use_variable_prefix=True))\n            if isinstance(x, (atoms.Intermediate, atoms.StateDerivative)):", "        for x in self.ode.sorted_assignments(remove_unused=self.remove_unused):\n            values_lst.append(self._doprint(x.symbol, x.expr, use_variable_prefix=True))\n            if isinstance(x, (atoms.Intermediate, atoms.StateDerivative)):", "R02.e"),
]
MUTANTS["C03"] = [
    M("monitor-arity-states", "codegen/base.py", "            return_name=rhs.return_name,\n            num_return_values=int(shape),\n            shape_info=shape_info,\n            values_type=\"numpy.zeros(shape)\",\n            missing_variables=missing_variables,\n        )\n\n        return self._format(code)\n\n    def missing_values", "            return_name=rhs.return_name,\n            num_return_values=rhs.num_return_values,\n            shape_info=shape_info,\n            values_type=\"numpy.zeros(shape)\",\n            missing_variables=missing_variables,\n        )\n\n        return self._format(code)\n\n    def missing_values", "R03.a"),
    M("jax-return-short", "templates/jax.py", "for i in range(num_return_values)]", "for i in range(num_return_values - 1)]", "R03.a"),
    M("jax-rewrite-other-base", "codegen/jax.py", 'if sym.base.name == "values":', 'if sym.base.name == "states":', "R03.a"),
    M("jax-inplace-store", "templates/jax.py", "        {name} = {name}.at[state_index(key)].set(value)", "        {name}[state_index(key)] = value", "R03.a"),
    M("jax-reduce", "codegen/python.py", "        return reduce(\n            lambda acc, arg: f\"{func}({acc}, {arg})\",\n            [self._print(arg) for arg in expr.args],\n        )", "        args = \", \".join(self._print(arg) for arg in expr.args)\n        return f\"{func}.reduce(({args}))\"", "R03.b"),
    M("jax-nested-first-two-operands", "codegen/python.py", "            [self._print(arg) for arg in expr.args],\n        )", "            [self._print(arg) for arg in expr.args[:2]],\n        )", "R03.b"),
    M("jax-sign-copysign", "codegen/python.py", 'f=self._module_format("numpy.sign")', 'f=self._module_format("numpy.lib.scimath.sign")', "R03.b"),
]
MUTANTS["C08"] = [
    M("registry-per-block", "transformer.py", "        comments = []\n        definitions: dict[str, atoms.Atom] = {}\n        for line in s:  # Each line in the block\n", "        comments = []\n        for line in s:  # Each line in the block\n            definitions: dict[str, atoms.Atom] = {}\n", "R08.a"),
    M("redefinition-equal-ok", "transformer.py", "                if previous is not atom:\n                    raise", "                if previous is not atom and previous != atom:\n                    raise", "R08.a"),
    M("derivatives-not-recorded", "ode.py", '            symbol_values[st.name].add(("state_derivative", st.expr))\n', "", "R08.a"),
    M("kind-tag-dropped", "ode.py", 'symbol_values[s.name].add(("state", s.value))', 'symbol_values[s.name].add(("parameter", s.value))', "R08.a"),
    M("predicate-more-than-two", "ode.py", "        if any(x > 1 for x in map(len, symbol_values.values())):\n            raise exceptions.DuplicateSymbolError(\n                set(k for k, v in symbol_values.items() if len(v) > 1)\n            )\n\n        t = sp.Symbol", "        if any(x > 2 for x in map(len, symbol_values.values())):\n            raise exceptions.DuplicateSymbolError(\n                set(k for k, v in symbol_values.items() if len(v) > 1)\n            )\n\n        t = sp.Symbol", "R08.a"),
    M("skip-empty-components", "ode.py", "    for comp in components:\n        if not comp.is_complete():", "    for comp in components:\n        if not comp.state_derivatives:\n            continue\n        if not comp.is_complete():", "R08.b"),
    M("orphan-derivative-bypass", "ode_component.py", "if state_name := STATE_DERIV_EXPR.match(assignment.name):", "if self.states and (state_name := STATE_DERIV_EXPR.match(assignment.name)):", "R08.b"),
    M("check-components-dropped", "ode.py", "        check_components(components)\n        _, symbol_values, symbols, lookup = gather_atoms(components=components)\n\n        if any", "        _, symbol_values, symbols, lookup = gather_atoms(components=components)\n\n        if any", "R08.b"),
    M("lookup-with-default", "expressions.py", "                return symbols_[str(tree.children[0])]", "                return symbols_.get(str(tree.children[0])) or sp.Symbol(str(tree.children[0]))", "R08.c"),
    M("cycle-swallowed", "ode.py", "    static_order = tuple(sorter.static_order())\n", "    try:\n        static_order = tuple(sorter.static_order())\n    except Exception:\n        static_order = tuple(sorted(assignment_names))\n", "R08.c"),
]
MUTANTS["C11"] = [
    M("ge-written-as-gt", "codegen/ode.py", '            ">=": "Ge",', '            ">=": "Gt",', "R11.a"),
    M("ne-table", "codegen/ode.py", '        if expr.rel_op == "!=":\n            # There is no \'Ne\' in the grammar\n            return f"Not(Eq({lhs}, {rhs}))"\n', '        if expr.rel_op == "!=":\n            return f"Ne({lhs}, {rhs})"\n', "R11.a"),
    M("exp1-override-removed", "codegen/ode.py", "    def _print_Exp1(self, expr):", "    def _print_Exp1_disabled(self, expr):", "R11.a"),
    M("not-override-removed", "codegen/ode.py", "    def _print_Not(self, expr):", "    def _print_Not_disabled(self, expr):", "R11.a"),
    M("and-first-two", "codegen/ode.py", "        return f\"And({', '.join(self._print(a) for a in expr.args)})\"", "        lhs, rhs = expr.args[:2]\n        return f\"And({self._print(lhs)}, {self._print(rhs)})\"", "R11.a"),
    M("or-infix", "codegen/ode.py", "        return f\"Or({', '.join(self._print(a) for a in expr.args)})\"", "        return ' | '.join(self._print(a) for a in expr.args)", "R11.a"),
    M("reader-binary-only", "expressions.py", "            return getattr(sp, tree.children[0])(\n                *[expr2symbols(c) for c in tree.children[1:]],\n            )", "            return getattr(sp, tree.children[0])(\n                *[expr2symbols(c) for c in tree.children[1:3]],\n            )", "R11.a"),
    M("sides-swapped", "codegen/ode.py", "        lhs = self._print(expr.lhs)\n        rhs = self._print(expr.rhs)", "        lhs = self._print(expr.rhs)\n        rhs = self._print(expr.lhs)", "R11.a"),
    M("derivatives-not-saved", "codegen/ode.py", "for i in self.ode.intermediates + self.ode.state_derivatives:", "for i in self.ode.intermediates:", "R11.b"),
    M("value-rstrip", "codegen/ode.py", 'ret = f"{p.name}={doprint(p.value)}"  # type: ignore', 'ret = f"{p.name}={doprint(p.value).rstrip(\'0\')}"  # type: ignore', "R11.b"),
    M("unit-dropped", "codegen/ode.py", "unit_str = \"\" if p.unit_str is None else f'unit=\"{p.unit_str}\"'", "unit_str = \"\"", "R11.b"),
    M("parameters-section-dropped", "save.py", "    text.append(printer.print_parameters())\n", "", "R11.b"),
    M("headerless-last", "codegen/ode.py", "        ordered = {c: d[c] for c in no_component + [c for c in d if c not in no_component]}", "        ordered = dict(d)", "R11.b"),
]
MUTANTS["C13"] = [
    M("t-is-missing", "ode.py", 'symbols = set(self.symbols.keys()) | {"t"}', "symbols = set(self.symbols.keys())", "R13.a"),
    M("missing-unsorted-numbering", "ode.py", "return {var: i for i, var in enumerate(sorted(variable_names))}", "return {var: i for i, var in enumerate(variable_names)}", "R13.a"),
    M("scheme-no-formal", "codegen/base.py", "        arguments = rhs.arguments\n        if self._missing_variables:\n            arguments += [\"missing_variables\"]\n\n        dt = sympy.Symbol", "        arguments = rhs.arguments\n\n        dt = sympy.Symbol", "R13.b"),
    M("monitor-no-block", "codegen/base.py", "            shape_info=shape_info,\n            values_type=\"numpy.zeros(shape)\",\n            missing_variables=missing_variables,\n        )\n\n        return self._format(code)\n\n    def missing_values", "            shape_info=shape_info,\n            values_type=\"numpy.zeros(shape)\",\n            missing_variables=\"\",\n        )\n\n        return self._format(code)\n\n    def missing_values", "R13.b"),
    M("jax-template-no-splice", "templates/jax.py", "{indent_parameters}\n{indent_missing_variables}\n", "{indent_parameters}\n", "R13.b"),
    M("missing-values-filtered", "codegen/base.py", "        for x in self.ode.sorted_assignments(remove_unused=False):\n            values_lst.append(self._doprint(x.symbol, x.expr, use_variable_prefix=True))\n            if x.name in values:", "        for x in self.ode.sorted_assignments(remove_unused=self.remove_unused):\n            values_lst.append(self._doprint(x.symbol, x.expr, use_variable_prefix=True))\n            if x.name in values:", "R13.c"),
    M("break-before-store", "codegen/base.py", "            if x.name in values:\n                values_lst.append(self._doprint(values_idx[values[x.name]], x.symbol))\n                n += 1\n            if n >= N:\n                break", "            if n >= N:\n                break\n            if x.name in values:\n                values_lst.append(self._doprint(values_idx[values[x.name]], x.symbol))\n                n += 1", "R13.c"),
    M("states-only", "codegen/base.py", "for p in self.ode.states + self.ode.parameters:", "for p in self.ode.states:", "R13.c"),
    M("sub-keeps-other", "ode.py", "new_components = [comp for comp in self.components if comp != other]", "new_components = [comp for comp in self.components if comp == other]", "R13.d"),
]
MUTANTS["C14"] = [
    M("sign-scalar", "codegen/python.py", 'return "{f}({e})".format(f=self._module_format("numpy.sign"), e=self._print(e.args[0]))', 'return "(0.0 if ({e} == 0) else {f}(1, {e}))".format(f=self._module_format("numpy.copysign"), e=self._print(e.args[0]))', "R14.a"),
    M("sign-allclose", "codegen/python.py", 'return "{f}({e})".format(f=self._module_format("numpy.sign"), e=self._print(e.args[0]))', 'return "numpy.where(numpy.allclose({e}, 0), 0.0, {f}({e}))".format(f=self._module_format("numpy.sign"), e=self._print(e.args[0]))', "R14.a"),
    M("and-numpy-all", "codegen/python.py", "    def _print_And(self, expr):\n        return self._print_nested(\"numpy.logical_and\", expr)", "    def _print_And(self, expr):\n        args = \", \".join(self._print(arg) for arg in expr.args)\n        return f\"numpy.all(({args}))\"", "R14.a"),
    M("and-python-and", "codegen/python.py", "    def _print_And(self, expr):\n        return self._print_nested(\"numpy.logical_and\", expr)", "    def _print_And(self, expr):\n        return \" and \".join(self._print(arg) for arg in expr.args)", "R14.a"),
    M("where-override-removed", "codegen/python.py", "    def _print_Piecewise(self, expr):\n        result = []\n", "    def _print_Piecewise_disabled(self, expr):\n        result = []\n", "R14.a"),
    M("kf-math", "codegen/python.py", "**{k: f\"numpy.{v.replace('math.', '')}\" for k, v in PythonCodePrinter._kf.items()},", "**{k: v for k, v in PythonCodePrinter._kf.items()},", "R14.a"),
    M("simplify-dropped", "codegen/base.py", "    expr = sympy.simplify(expr)\n\n    exprs =", "    exprs =", "R14.a"),
    M("multiple-shape-axis", "codegen/base.py", 'return f"shape = ({shape}, states.shape[1])"', 'return f"shape = ({shape}, states.shape[0])"', "R14.b"),
    M("dynamic-shape-len", "codegen/base.py", "if len(states.shape) == 1 else", "if len(states.shape) == 2 else", "R14.b"),
    M("zeros-like-parameters", "codegen/python.py", 'values_type="numpy.zeros_like(states, dtype=numpy.float64)",\n        )\n\n    def _scheme_arguments', 'values_type="numpy.zeros_like(parameters, dtype=numpy.float64)",\n        )\n\n    def _scheme_arguments', "R14.b"),
]
MUTANTS["C15"] = [
    M("initial-values-by-position", "myokit.py", "value=initial_values[var.index()],", "value=next(initial_iter),", "R15.b"),
    M("rename-one-site", "myokit.py", "            name = var.uname()\n            if name in reserved_names:\n                name = f\"{name}_\"\n\n            if name == \"time\":", "            name = var.uname()\n\n            if name == \"time\":", "R15.a"),
    M("reserved-narrowed", "myokit.py", 'reserved_names = {name for name in dir(sp) if not name.startswith("_")}', 'reserved_names = {name for name in dir(sp) if not name.startswith("_") and callable(getattr(sp, name))}', "R15.a"),
    M("chain-order", "myokit.py", "                        expr = expr.xreplace(component_subs.get(component.name(), {}))\n                        expr = expr.xreplace(all_subs)\n\n                    intermediate", "                        expr = expr.xreplace(all_subs)\n                        expr = expr.xreplace(component_subs.get(component.name(), {}))\n\n                    intermediate", "R15.b"),
    M("export-intermediates-unregistered", "myokit.py", "            global_var_map[sp.Symbol(intermediate.name)] = sp.Symbol(var.qname())\n", "", "R15.c"),
]
MUTANTS["C16"] = [
    M("infinite-three-valued", "atoms.py", "return self.replacement.has(sp.oo) or self.replacement.has(-sp.oo)", "return not sp.sympify(self.replacement).is_finite", "R16.b"),
    M("search-breaks", "atoms.py", "            if not values:\n                continue\n", "            if not values:\n                break\n", "R16.b"),
    M("component-lookup", "ode.py", "new_components.append(component.remove_singularities(self._lookup))", "new_components.append(component.remove_singularities({a.name: a for a in component.atoms}))", "R16.b"),
    M("infinite-not-skipped", "atoms.py", "        for singularity in singularities\n        if not singularity.is_infinite\n", "        for singularity in singularities\n", "R16.b"),
    M("limit-at-zero", "atoms.py", "replacement=limit(self.expr, var.symbol, value),", "replacement=limit(self.expr, var.symbol, 0),", "R16.b"),
    M("condition-on-other-symbol", "atoms.py", "cond=sp.Eq(singularity.symbol, singularity.value),", "cond=sp.Eq(singularity.value, 0),", "R16.b"),
]
MUTANTS["C17"] = [
    M("narrow-handler", "transformer.py", "            except Exception:\n                # Not a proper unit so it's a comment.", "            except (units.pint.UndefinedUnitError, AttributeError):\n                # Not a proper unit so it's a comment.", "R17.a"),
    M("comment-sympified", "transformer.py", "        return atoms.Comment(\" \".join(map(str.lstrip, map(lambda x: x.lstrip(\"#\"), map(str, s)))))", "        text = \" \".join(map(str.lstrip, map(lambda x: x.lstrip(\"#\"), map(str, s))))\n        import sympy\n        sympy.sympify(text)\n        return atoms.Comment(text)", "*"),
    M("redos-regex", "ode_component.py", 'STATE_DERIV_EXPR = re.compile(r"^d(?P<state>\\w+)_dt$")', 'STATE_DERIV_EXPR = re.compile(r"^d(?P<state>(\\w+)+)_dt$")', "R17.a"),
    M("comment-two-tokens", "ode.lark", "comment : COMMENT+", 'comment : ("#" /.+/)+', "R17.b"),
    M("block-only-assignments", "ode.lark", '    | "expressions" "(" COMPONENT_NAME ("," COMPONENT_NAME)* ")" (assignment | comment | NEWLINE)+', '    | "expressions" "(" COMPONENT_NAME ("," COMPONENT_NAME)* ")" (assignment)+', "R17.b"),
    M("ws-not-ignored", "ode.lark", "%ignore WS\n", "", "R17.b"),
    M("codegen-reads-unit", "codegen/base.py", "            values_lst.append(self._doprint(x.symbol, x.expr, use_variable_prefix=True))\n            if isinstance(x, atoms.StateDerivative):", "            values_lst.append(self._doprint(x.symbol, x.expr if x.unit_str != \"mV\" else 1000 * x.expr, use_variable_prefix=True))\n            if isinstance(x, atoms.StateDerivative):", "R17.c"),
    M("scheme-reads-comment", "schemes.py", "        if isinstance(x, atoms.StateDerivative):\n            eqs.append(", "        if isinstance(x, atoms.StateDerivative) and x.comment is None:\n            eqs.append(", "R17.c"),
]
MUTANTS["C19"] = [
    M("bool-regex-precedence", "codegen/c.py", 'return re.sub(r"\\btrue\\b", "1", re.sub(r"\\bfalse\\b", "0", expr))', 'return re.sub(r"\\btrue|false\\b", lambda m: "1" if m.group() == "true" else "0", expr)', "R19.b"),
    M("pi-case-insensitive", "ode.lark", 'PI: "pi"\n', 'PI: "pi"i\n', "R19.d"),
    M("myokit-rename-suffix", "myokit.py", "            name = var.uname()\n            if name in reserved_names:\n                name = f\"{name}_\"\n\n            component_subs", "            name = var.uname()\n            if name in reserved_names:\n                name = f\"_{name}\"\n\n            component_subs", "R19.c"),
    M("lhs-not-printed", "codegen/python.py", "            lhs = super()._print(expr.args[0][0].lhs)\n            result.append(f\"{super()._print(lhs)} = \")", "            lhs = expr.args[0][0].lhs\n            result.append(f\"{lhs} = \")", "R19.e"),
    M("partial-guard", "ode.py", "T = TypeVar(\"T\")\n", "T = TypeVar(\"T\")\nRESERVED = {\"dt\", \"states\", \"parameters\", \"values\", \"numpy\"}\n", "R19.a"),
]


# ---- liveness of the rules added by round 4 ---------------------------------------------------------------------------
MUTANTS["C04"] += [
    M("state-order-shortcut", "ode.py", "return tuple(s for s in self.sorted_assignments() if isinstance(s, atoms.StateDerivative))", "if not self.intermediates:\n            return self.state_derivatives\n        return tuple(s for s in self.sorted_assignments() if isinstance(s, atoms.StateDerivative))", "R04.a2"),
]
MUTANTS["C05"] += [
    M("sorted-states-by-name", "ode.py", "return tuple(s.state for s in self.sorted_state_derivatives())", "return self.states if len(self.intermediates) == 0 else tuple(s.state for s in self.sorted_state_derivatives())", "R05.e"),
]
MUTANTS["C03"] += [
    M("jax-float-rounded", "codegen/python.py", "return self._print(str(float(flt)))", "return self._print(str(round(float(flt), 14)))", "R03.b"),
    M("jax-header-32bit", "codegen/jax.py", '\'jax.config.update("jax_enable_x64", True)\'', '\'jax.config.update("jax_enable_x64", False)\'', "R03.b"),
]
MUTANTS["C09"] += [
    M("fold-singularities-one-by-one", "atoms.py", "    new_expr = sp.piecewise_fold(sum(exprs))", "    new_expr = exprs[0]\n    for other in exprs[1:]:\n        new_expr = sp.piecewise_fold(new_expr + other)", "R09.a"),
]
MUTANTS["C11"] += [
    M("comment-first-line-only", "codegen/ode.py", 'text = "# " + "\\n# ".join(text.strip().split("\\n"))', 'text = "# " + text.strip()', "R11.b"),
]
MUTANTS["C17"] += [
    M("comment-stops-at-cr", "ode.lark", "COMMENT: /#[^\\n]*/", "COMMENT: /#[^\\r\\n]*/", "R17.b"),
    M("comment-stops-at-semicolon", "ode.lark", "COMMENT: /#[^\\n]*/", "COMMENT: /#[^;\\n]*/", "R17.b"),
]

MUTANTS["C11"] += [
    M("ite-not-rewritten", "codegen/base.py", "            return printer._print(simplify_logic(cond))", "            return printer._print(cond)", "R11.a"),
]
MUTANTS["C14"] += [
    M("piecewise-as-max-reduction", "codegen/python.py", "            conds, exprs = _print_Piecewise(self, expr)\n\n            for c, e in zip(conds, exprs):", "            if len(expr.args) == 2 and expr.args[0].cond.is_Relational:\n                return 'numpy.max([' + self._print(expr.args[0].expr) + ', ' + self._print(expr.args[1].expr) + '])'\n            conds, exprs = _print_Piecewise(self, expr)\n\n            for c, e in zip(conds, exprs):", "R14.a"),
]


# ---- liveness of the rules added by round 7 ---------------------------------------------------------------------------
MUTANTS["C09"] += [
    M("dummy-helper-symbol", "schemes.py", "        linearized = sympy.Symbol(linearized_name)\n", "        linearized = sympy.Dummy(linearized_name)\n", "R09.d"),
    M("first-stateful-dependency-only", "atoms.py", "                        replacement=limit(self.expr, var.symbol, value),\n                    )\n                )\n        return frozenset(singularity_list)", "                        replacement=limit(self.expr, var.symbol, value),\n                    )\n                )\n            break\n        return frozenset(singularity_list)", "R09.a"),
]
MUTANTS["C16"] += [
    M("unknown-name-means-stateless", "atoms.py", "                state = lookup[dep]\n            except KeyError:\n                continue\n            if state.is_stateful(lookup):", "                state = lookup[dep]\n            except KeyError:\n                return False\n            if state.is_stateful(lookup):", "R16.b"),
]
MUTANTS["C17"] += [
    M("free-text-in-format-template", "atoms.py", "            except Exception:\n                logger.warning(f\"Invalid unit {unit_str!r}\")", "            except Exception as ex2:\n                logger.warning(f\"Invalid unit {unit_str!r}: %s\", ex2)", "R17.a"),
    M("annotation-read-through-getattr", "codegen/c.py", "    def imports(self) -> str:", "    def _note(self, atom) -> str:\n        return getattr(atom, \"unit_str\", None) or \"\"\n\n    def imports(self) -> str:", "R17.c"),
]
MUTANTS["C18"] += [
    M("skip-when-output-is-newer", "cli/gotran2c.py", "    ode = load_ode(fname)\n    code = get_code(", "    if outname is not None and Path(outname).is_file():\n        return\n    ode = load_ode(fname)\n    code = get_code(", "R18.b"),
    M("explicit-config-on-top-of-discovered", "cli/utils.py", "    # If no path is given, try to find the pyproject.toml file\n    if path is None:\n        path = find_pyproject_toml_config()", "    extra = find_pyproject_toml_config()\n    # If no path is given, try to find the pyproject.toml file\n    if path is None:\n        path = extra", "R18.c"),
]
MUTANTS["C19"] += [
    M("reserved-words-replaced", "codegen/jax.py", "class JaxPrinter(GotranPythonCodePrinter):\n", "class JaxPrinter(GotranPythonCodePrinter):\n    reserved_words = {\"jax\", \"numpy\"}\n\n", "R19.e"),
]
MUTANTS["C14"] += [
    M("and-as-chained-comparison", "codegen/python.py", "    def _print_And(self, expr):\n", "    def _print_And(self, expr):\n        if len(expr.args) == 2 and all(hasattr(a, \"lts\") for a in expr.args) and expr.args[0].gts == expr.args[1].lts:\n            return f\"({self._print(expr.args[0].lts)} < {self._print(expr.args[0].gts)} < {self._print(expr.args[1].gts)})\"\n", "R14.a"),
]
MUTANTS["C01"] += [
    M("asin-is-arcsinh", "codegen/python.py", '        **{"DiracDelta": "numpy.zeros_like"},\n', '        **{"DiracDelta": "numpy.zeros_like"},\n        **{"asin": "numpy.arcsinh"},\n', "R01.h"),
]
MUTANTS["C15"] += [
    M("acos-is-arcsin", "codegen/python.py", '        **{"DiracDelta": "numpy.zeros_like"},\n', '        **{"DiracDelta": "numpy.zeros_like"},\n        **{"acos": "numpy.arcsin"},\n', "R15.d"),
]
MUTANTS["C08"] += [
    M("registry-keyed-by-component-and-name", "transformer.py", "previous = definitions.setdefault(atom.name, atom)", "previous = definitions.setdefault((atom.components, atom.name), atom)", "R08.a"),
]
MUTANTS["C11"] += [
    M("unit-dropped-when-pint-says-dimensionless", "codegen/ode.py", 'if a.unit_str is not None and a.unit_str != "1":', "if a.unit_str is not None and not (a.unit is not None and a.unit.dimensionless):", "R11.b"),
]
MUTANTS["C12"] += [
    M("scheme-relies-on-the-models-linearisation", "schemes.py", "        eqs.append(printer(linearized, expr_diff, use_variable_prefix=True))\n", "        if linearized_name not in ode.symbols:\n            eqs.append(printer(linearized, expr_diff, use_variable_prefix=True))\n", "R12.d", count=2),
]
MUTANTS["C05"] += [
    M("result-aliases-the-input-for-fixed-shapes", "codegen/base.py", "            values_type=rhs.values_type,\n            missing_variables=missing_variables,\n        )\n        return self._format(code)", "            values_type=rhs.values_type if self._shape == Shape.dynamic else rhs.values_type.replace(\"zeros_like\", \"asarray\"),\n            missing_variables=missing_variables,\n        )\n        return self._format(code)", "R05.c"),
]
MUTANTS["C03"] += [
    M("missing-values-renumbered", "cli/gotran2py.py", "        _missing_values = codegen.missing_values(missing_values)", "        _missing_values = codegen.missing_values({name: i for i, name in enumerate(missing_values)})", "R03.c"),
]
MUTANTS["C06"] += [
    M("conditional-shortcut-never-false", "sympytools.py", "true_value if cond else false_value", "true_value if cond is not False else false_value", "R06.a"),
]


# ---- liveness of the rules added by round 8 ---------------------------------------------------------------------------
MUTANTS["C09"] += [
    M("sorted-assignments-memo-on-the-model", "ode.py", "        return tuple([cast(atoms.Assignment, self[name]) for name in names])", "        self.__dict__.setdefault(\"_sorted_names\", {}).setdefault(assignments_only, names)\n        self._last_sorted = names\n        return tuple([cast(atoms.Assignment, self[name]) for name in names])", "R09.b"),
]
MUTANTS["C19"] += [
    M("missing-variable-bound-by-raw-name", "codegen/base.py", "                self._doprint(\n                    sympy.Symbol(name),\n                    missing_variables[index],\n                    use_variable_prefix=True,\n                )", "                f\"{self.variable_prefix}{name} = \" + self.printer.doprint(missing_variables[index])", "R19.e"),
]
MUTANTS["C15"] += [
    M("float-equality-with-tolerance", "codegen/python.py", "    def _print_Equality(self, expr):\n", "    def _print_Equality(self, expr):\n        if any(a.is_Float for a in expr.args):\n            return f\"numpy.isclose({self._print(expr.args[0])}, {self._print(expr.args[1])})\"\n", "R15.d"),
]
MUTANTS["C08"] += [
    M("component-tag-stripped", "transformer.py", "components.append(remove_quotes(str(s[i])))", "components.append(remove_quotes(str(s[i])).strip())", "R08.b"),
]
MUTANTS["C17"] += [
    M("form-feed-no-longer-ignored", "ode.lark", "%import common.WS\n", "WS: /[ \\t\\r\\n]+/\n", "R17.b"),
    M("entries-deduplicated-by-equality", "transformer.py", "        return tuple(assignments)\n\n    def ode(self, s)", "        return tuple(dict.fromkeys(assignments))\n\n    def ode(self, s)", "R17.b"),
]
